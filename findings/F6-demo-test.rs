// Demonstration for finding F6 (C17): add to `mod tests` of src/server/bgp/analyser.rs.
// Fails on the tree before the fix commit, passes after.
#[test]
fn f6_as0_roa_does_not_disallow_valid_announcement() {
    let roa_as0 = configured_roa("10.0.0.0/21 => 0");
    let roa_specific = configured_roa("10.0.0.0/24 => 64496");
    let analyser = test_analyser();
    let resources_held = ResourceSet::from_strs("", "10.0.0.0/8", "").unwrap();
    let report = analyser.analyse(&[roa_as0.clone(), roa_specific], &resources_held, None);
    let valid = ann("10.0.0.0/24 => 64496");
    let entries = report.into_entries();
    assert!(entries.iter().any(|e| {
        e.state() == BgpAnalysisState::AnnouncementValid && e.announcement() == valid
    }));
    let as0_entry = entries.iter().find(|e| e.state() == BgpAnalysisState::RoaAs0).unwrap();
    assert_eq!(as0_entry.configured_roa(), &roa_as0);
    assert!(!as0_entry.disallows().contains(&valid));
    assert!(as0_entry.disallows().contains(&ann("10.0.0.0/22 => 64497")));
}
