// Demonstration of finding F7 (property C05; also C01/C06): append to
// src/server/ca/aspa.rs and run `cargo test --lib f7_`.
//
// A CA has the ASPA definition AS65000 => [AS65001].  One update removes
// AS65000 and add-or-replaces AS65000 => [AS65001, AS65002].  process_updates
// accepts it and returns (a) the new configuration, from which the ASPA
// objects are derived, and (b) the events that are stored and replayed to
// rebuild the configuration (CertAuth::apply).  Before the fix the events were
// [Removed AS65000, Updated AS65000 +AS65002]: the difference was computed
// against the configuration *before* the removal, so replaying them gives
// AS65000 => [AS65002] while the published object says [AS65001, AS65002].
#[cfg(test)]
mod f7_demo {
    use super::*;
    use std::str::FromStr;
    use rpki::repository::resources::Asn;

    fn def(customer: u32, providers: &[u32]) -> AspaDefinition {
        AspaDefinition {
            customer: Asn::from_u32(customer),
            providers: providers.iter().map(|p| Asn::from_u32(*p)).collect(),
        }
    }

    #[test]
    fn f7_events_rebuild_the_accepted_configuration() {
        let ca = CaHandle::from_str("ca").unwrap();
        let resources = ResourceSet::from_strs("AS65000", "", "").unwrap();
        let mut current = AspaDefinitions::default();
        current.add_or_replace(def(65000, &[65001]));

        let updates = AspaDefinitionUpdates {
            add_or_replace: vec![def(65000, &[65001, 65002])],
            remove: vec![Asn::from_u32(65000)],
        };
        let (accepted, events) = current.process_updates(&ca, &resources, updates).unwrap();

        // what CertAuth::apply does with the stored events
        let mut rebuilt = current.clone();
        for event in events {
            match event {
                CertAuthEvent::AspaConfigAdded { aspa_config } => rebuilt.add_or_replace(aspa_config),
                CertAuthEvent::AspaConfigUpdated { customer, update } => rebuilt.apply_update(customer, &update),
                CertAuthEvent::AspaConfigRemoved { customer } => rebuilt.remove(customer),
                _ => {}
            }
        }
        assert_eq!(
            accepted.get(Asn::from_u32(65000)).map(|d| d.providers.clone()),
            Some(vec![Asn::from_u32(65001), Asn::from_u32(65002)]),
        );
        assert_eq!(rebuilt, accepted, "configuration rebuilt from the events differs from the accepted one");
    }
}
