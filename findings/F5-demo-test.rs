// Demonstration for finding F5 (C11): add to `mod test` of src/server/pubd/rrdp.rs.
// Fails on the tree before the fix commit (returns 3), passes after.
#[test]
#[allow(deprecated)]
fn f5_max_nr_enforced_after_young_deltas() {
    let now = Time::now();
    let delta = |serial, age| DeltaData::new(
        serial, now - Duration::seconds(age),
        RrdpFileRandom::default(), DeltaElements::default(),
    );
    let deltas = VecDeque::from(vec![delta(9, 10), delta(8, 2000), delta(7, 3000)]);
    let server = RrdpServer::new(
        https("https://localhost/rrdp/"),
        PathBuf::from("/tmp/rrdp"), PathBuf::from("/tmp/archive"),
        RrdpSession::default(), 9, now,
        SnapshotData::new(RrdpFileRandom::default(), HashMap::new()),
        deltas, HashMap::new(),
    );
    let config = RrdpUpdatesConfig {
        rrdp_delta_files_min_nr: 0,
        rrdp_delta_files_min_seconds: 1200,
        rrdp_delta_files_max_nr: 2,
        rrdp_delta_files_max_seconds: 7200,
        rrdp_delta_interval_min_seconds: 0,
        rrdp_files_archive: false,
    };
    assert_eq!(server.find_deltas_truncate_age(config), 1);
    // two young deltas take the count past the maximum: the older one must still go
    let deltas = VecDeque::from(vec![delta(9, 10), delta(8, 20), delta(7, 3000)]);
    let mut server = server;
    server.deltas = deltas;
    assert_eq!(server.find_deltas_truncate_age(config), 2);
}
