// Demonstration for finding F4 (C05): add to `mod tests` of src/server/ca/roa.rs.
// Fails on the tree before the fix commit (the delta is accepted), passes after.
#[test]
fn f4_v6_payload_accepted_on_v4_holding() {
    use rpki::repository::resources::ResourceSet;
    use crate::api::roa::{RoaConfiguration, RoaConfigurationUpdates};
    let held = ResourceSet::from_strs("", "10.0.0.0/8", "").unwrap();
    let ca = CaHandle::from_str("ca").unwrap();
    let mut updates = RoaConfigurationUpdates::default();
    updates.added.push(RoaConfiguration::from_str("a00::/8 => 64496").unwrap());
    updates.set_explicit_max_length();
    let res = Routes::default().process_updates(&ca, &held, &updates);
    assert!(res.is_err(), "v6 prefix a00::/8 accepted by a CA holding only 10.0.0.0/8");
}
