// Replay for property C11, harness server::pubd::rrdp::verif_kani::c11k_retained_never_exceeds_maximum
// Failing checks: assertion failed: keep + 1 <= cfg.rrdp_delta_files_max_nr @ server::pubd::rrdp::verif_kani::c11k_retained_never_exceeds_maximum (/verif/harness/server_pubd_rrdp.rs:220)
// Reproduce: /verif/bin/vk replay /verif/replays/C11-c11k_retained_never_exceeds_maximum.rs
// (places this file as the `playback` test module of the harness module and runs
//  `cargo kani playback -Z concrete-playback` in /repo: the real code, compiled natively.)
// vk-harness-file: /verif/harness/server_pubd_rrdp.rs
use super::*;
/// assertion: assertion failed: keep + 1 <= cfg.rrdp_delta_files_max_nr
#[test]
fn kani_concrete_playback_c11k_retained_never_exceeds_maximum_6898843051735360846() {
    let concrete_vals: Vec<Vec<u8>> = vec![
        // 1015936
        vec![128, 128, 15, 0],
        // 16384
        vec![0, 64, 0, 0],
        // 22528
        vec![0, 88, 0, 0],
        // 130048
        vec![0, 252, 1, 0],
        // 1ul
        vec![1, 0, 0, 0, 0, 0, 0, 0],
        // 2ul
        vec![2, 0, 0, 0, 0, 0, 0, 0],
        // 32768
        vec![0, 128],
        // 0
        vec![0, 0],
    ];
    kani::concrete_playback_run(concrete_vals, c11k_retained_never_exceeds_maximum);
}
