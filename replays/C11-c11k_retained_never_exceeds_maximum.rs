// Replay for property C11, harness server::pubd::rrdp::verif_kani::c11k_retained_never_exceeds_maximum
// Failing checks: assertion failed: keep + 1 <= cfg.rrdp_delta_files_max_nr @ server::pubd::rrdp::verif_kani::c11k_retained_never_exceeds_maximum (/verif/harness/server_pubd_rrdp.rs:177)
// Reproduce: /verif/bin/vk replay /verif/replays/C11-c11k_retained_never_exceeds_maximum.rs
// (places this file as the `playback` test module of the harness module and runs
//  `cargo kani playback -Z concrete-playback` in /repo: the real code, compiled natively.)
// vk-harness-file: /verif/harness/server_pubd_rrdp.rs
use super::*;
/// assertion: assertion failed: keep + 1 <= cfg.rrdp_delta_files_max_nr
#[test]
fn kani_concrete_playback_c11k_retained_never_exceeds_maximum_9628070501113111147() {
    let concrete_vals: Vec<Vec<u8>> = vec![
        // 595968
        vec![0, 24, 9, 0],
        // 12288
        vec![0, 48, 0, 0],
        // 12288
        vec![0, 48, 0, 0],
        // 106240
        vec![0, 159, 1, 0],
        // 0ul
        vec![0, 0, 0, 0, 0, 0, 0, 0],
        // 2ul
        vec![2, 0, 0, 0, 0, 0, 0, 0],
        // 18176
        vec![0, 71],
        // 65473
        vec![193, 255],
    ];
    kani::concrete_playback_run(concrete_vals, c11k_retained_never_exceeds_maximum);
}
