#!/usr/bin/env python3
"""calibrate_unwindset.py <full harness name> <bound> [existing unwindset]
Iteratively discovers the CBMC names of the (concrete, long) loops that hit the harness's small
global unwind bound and prints an --unwindset string giving each of them <bound>.
Only meant for loops over CONCRETE data (URI literals etc.); the resulting string goes into the
harness's `// vk: unwindset=` annotation. Unwinding assertions stay on, so a wrong guess is an error."""
import re, subprocess, sys, os
h, bound = sys.argv[1], sys.argv[2]
us = sys.argv[3].split(",") if len(sys.argv) > 3 and sys.argv[3] else []
env = dict(os.environ, CARGO_NET_OFFLINE="true")
for it in range(30):
    cmd = ["cargo", "kani", "-Z", "stubbing", "-Z", "unstable-options", "--target-dir", "/verif/.cache/kani-target",
           "--exact", "--harness", h, "--output-format", "old", "--harness-timeout", "900"]
    if us:
        cmd += ["--cbmc-args", "--unwindset", ",".join(us)]
    out = subprocess.run(cmd, cwd="/repo", env=env, stdout=subprocess.PIPE, stderr=subprocess.STDOUT, text=True).stdout
    names = sorted(set(re.findall(r"Not unwinding loop (\S+) ", out)))
    new = [n for n in names if not any(u.startswith(n + ":") for u in us)]
    status = "SUCCESSFUL" if "VERIFICATION SUCCESSFUL" in out else ("FAILED" if "VERIFICATION FAILED" in out else "?")
    print(f"iter {it}: status={status} new loops at bound: {len(new)}", flush=True)
    for n in new:
        print("   ", n, flush=True)
    if not new:
        break
    us += [f"{n}:{bound}" for n in new]
print("UNWINDSET=" + ",".join(us))
