#!/bin/bash
# verify_seed.sh <worktree> <seed-dir>   -> writes <seed-dir>/verify.log, prints one summary line
# Confirms: demo passes w/o patch, fails with patch, existing lib tests still pass with patch.
WT=$1; SD=$2
cd "$WT" || exit 2
git checkout -q -- . ; git clean -fdq -e target
LOG=$SD/verify.log; : > $LOG
T=$(python3 -c "import json;print(json.load(open('$SD/meta.json'))['demo_test'])")
F=${T##*::}
git apply $SD/demo.diff || { echo "$SD demo does not apply"; exit 2; }
cargo test --offline -j 6 --lib "$F" >> $LOG 2>&1
grep -q "test result: ok. 1 passed" $LOG && A=pass || A=FAIL
git apply $SD/patch.diff || { echo "$SD patch does not apply after demo"; git checkout -q -- .; exit 2; }
echo "=== with patch" >> $LOG
cargo test --offline -j 6 --lib "$F" >> $LOG 2>&1
tail -5 $LOG | grep -q "1 failed" && B=fail || B=NOFAIL
git checkout -q -- . ; git clean -fdq -e target
git apply $SD/patch.diff
echo "=== suite with patch" >> $LOG
cargo test --offline -j 6 --lib >> $LOG 2>&1
S=$(grep "test result:" $LOG | tail -1)
FAILED=$(grep "^    [a-z_:]*$" $LOG | sort -u | tr '\n' ' ')
git checkout -q -- . ; git clean -fdq -e target
echo "$SD demo_without_patch=$A demo_with_patch=$B suite: $S failed_tests: $FAILED"
