#!/usr/bin/env python3
"""run_seeded.py [--tier quick|thorough] <seed-id>...   (default: all in /verif/seeded)

Applies each seeded change to a scratch worktree of /repo (never to /repo), runs the
registered check of the property it breaks against that worktree, records the verdict in
/verif/seeded/<id>/result.json and reverts. Expected: exit 1 + VIOLATION line = caught."""
import json, os, subprocess, sys, time
SEEDED = "/verif/seeded"
WT = "/tmp/seedrun"
args = sys.argv[1:]
tier = "quick"
if "--tier" in args:
    i = args.index("--tier"); tier = args[i + 1]; args = args[:i] + args[i + 2:]
ids = args or sorted(os.listdir(SEEDED))
if not os.path.isdir(WT):
    subprocess.check_call(["git", "-C", "/repo", "worktree", "add", "-q", "--detach", WT, "HEAD"])
env = dict(os.environ, VK_REPO=WT, VK_TARGET="/verif/.cache/kt-seed", VK_PB_TARGET="/verif/.cache/pb-seed",
           VK_EVIDENCE_DIR="/tmp/seedrun-evidence")
for sid in ids:
    d = os.path.join(SEEDED, sid)
    meta = json.load(open(os.path.join(d, "meta.json")))
    prop = meta["property"]
    subprocess.check_call(["git", "-C", WT, "checkout", "-q", "--detach", subprocess.check_output(["git", "-C", "/repo", "rev-parse", "HEAD"]).decode().strip()])
    subprocess.check_call(["git", "-C", WT, "checkout", "-q", "--", "."])
    subprocess.check_call(["git", "-C", WT, "apply", os.path.join(d, "patch.diff")])
    env["VK_REPLAY_DIR"] = os.path.join(d, "replays")
    t0 = time.time()
    p = subprocess.run(["/verif/bin/vk", "check", prop, "--tier", tier], env=env, stdout=subprocess.PIPE, stderr=subprocess.STDOUT, text=True)
    out = p.stdout
    open(os.path.join(d, f"check-{tier}.log"), "w").write(out)
    lines = [l for l in out.split("\n") if l.startswith(("VIOLATION", "KNOWN-FINDING")) or " FAILED " in l or "failed check" in l or "INCONCLUSIVE" in l or "NO_RESULT" in l or "UNREPRODUCED" in l or "vk: replay" in l]
    res = {"seed": sid, "property": prop, "tier": tier, "exit": p.returncode,
           "verdict": {0: "MISSED (check passed)", 1: "CAUGHT (VIOLATION reported, reproduced natively)", 2: "INCONCLUSIVE"}.get(p.returncode, "?"),
           "wall_s": round(time.time() - t0), "lines": lines[:12], "repo_head": subprocess.check_output(["git", "-C", "/repo", "rev-parse", "--short", "HEAD"]).decode().strip()}
    json.dump(res, open(os.path.join(d, f"result-{tier}.json"), "w"), indent=1)
    print(sid, res["verdict"], f"{res['wall_s']}s", flush=True)
    subprocess.check_call(["git", "-C", WT, "checkout", "-q", "--", "."])
