#!/usr/bin/env python3
"""Prints the catch matrix (markdown) from /verif/seeded/*/{meta.json,result-*.json,verify.log}."""
import json, os, re
S = "/verif/seeded"
rows = []
for sid in sorted(os.listdir(S)):
    d = os.path.join(S, sid)
    m = json.load(open(os.path.join(d, "meta.json")))
    res = {}
    for t in ("quick", "thorough"):
        p = os.path.join(d, f"result-{t}.json")
        if os.path.exists(p):
            res[t] = json.load(open(p))
    q = res.get("quick")
    verdict = "not run"
    by = ""
    if q:
        verdict = {0: "missed", 1: "**caught**", 2: "inconclusive"}[q["exit"]]
        hs = []
        for l in q["lines"]:
            mm = re.match(r"\s+(c\d\d\w+)\s+FAILED", l)
            if mm: hs.append(mm.group(1))
        by = ", ".join(sorted(set(hs)))
    t = res.get("thorough")
    if t and (not q or q["exit"] != 1):
        if t["exit"] == 1:
            verdict += " (thorough: **caught**)"
            hs = []
            for l in t["lines"]:
                mm = re.match(r"\s+(c\d\d\w+)\s+FAILED", l)
                if mm: hs.append(mm.group(1))
            by = ", ".join(sorted(set(hs)))
    summ = " ".join(m.get("summary", "").split())[:170]
    rows.append((sid, summ, verdict, by))
print("| seed | change | quick check of its property | failing harness |")
print("|---|---|---|---|")
for r in rows:
    print("| %s | %s | %s | %s |" % r)
n = len(rows); c = sum(1 for r in rows if "caught" in r[2])
print(f"\n{c} of {n} seeded changes caught.")
