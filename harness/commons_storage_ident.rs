// Kani harnesses compiled as `mod verif_kani` inside /repo/src/commons/storage/ident.rs (cfg(kani) only).
//
// Kernels: Ident::{from_bytes, check_bytes, from_str}.
use super::*;

fn spec_ok(b: &[u8]) -> bool {
    if b.is_empty() || b[0] == b'.' { return false; }
    let mut i = 0;
    while i < b.len() {
        let c = b[i];
        let ok = (c >= b'0' && c <= b'9') || (c >= b'a' && c <= b'z') || (c >= b'A' && c <= b'Z')
            || c == b'+' || c == b'-' || c == b'_' || c == b'.';
        if !ok { return false; }
        i += 1;
    }
    true
}

/// `Ident::from_bytes` accepts exactly the non-empty strings over
/// [A-Za-z0-9+-_.] that do not start with a period (so that "..", "/" and
/// NUL can never become part of a storage path), for every input up to 8
/// bytes; it never panics.
// vk: bound=0..=8 arbitrary bytes
#[kani::proof]
#[kani::unwind(10)]
fn c16d_ident_from_bytes_8() {
    let buf: [u8; 8] = kani::any();
    let len: usize = kani::any();
    kani::assume(len <= 8);
    let r = Ident::from_bytes(&buf[..len]);
    assert!(r.is_ok() == spec_ok(&buf[..len]));
    if let Ok(id) = r {
        assert!(id.as_bytes().len() == len);
    }
    kani::cover!(r.is_ok() && len == 8);
    kani::cover!(r.is_err() && len == 8);
    kani::cover!(len == 0);
}

#[cfg(test)]
#[path = "/verif/.cache/playback/commons_storage_ident.rs"]
mod playback;
