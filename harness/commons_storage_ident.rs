// Kani harnesses compiled as `mod verif_kani` inside /repo/src/commons/storage/ident.rs (cfg(kani) only).
