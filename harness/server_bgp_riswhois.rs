// Kani harnesses compiled as `mod verif_kani` inside /repo/src/server/bgp/riswhois.rs (cfg(kani) only).
//
// Kernels: <Ipv4Prefix as RoutePrefix>::{covers, closest_ancestor, bit},
// <Ipv6Prefix as RoutePrefix>::{covers, closest_ancestor, bit},
// RouteOriginBox::{next_prefix, origin_set}.
use super::*;
use crate::api::roa::verif_kani::{any_v4, any_v6, v4_bits, v6_bits};

/// Constructor for other harness modules (`RouteOriginSet::new` is private).
pub(crate) fn origin_set<'a, P: RoutePrefix>(
    slice: &'a [RouteOrigin<P>],
) -> RouteOriginSet<'a, P> {
    RouteOriginSet::new(slice)
}

//------------ C17(a): prefix algebra vs. bit-level specifications ------------

#[kani::proof]
fn c17a_covers_v4() {
    let a = any_v4();
    let b = any_v4();
    let la = a.addr_len() as u32;
    let expect = a.addr_len() <= b.addr_len()
        && (la == 0 || (v4_bits(a) >> (32 - la)) == (v4_bits(b) >> (32 - la)));
    assert!(a.covers(b) == expect);
    // covers is reflexive and antisymmetric on well-formed prefixes
    assert!(a.covers(a));
    if a.covers(b) && b.covers(a) {
        assert!(a == b);
    }
    kani::cover!(expect && a.addr_len() < b.addr_len());
    kani::cover!(!expect && a.addr_len() < b.addr_len());
    kani::cover!(a.addr_len() == 32 && expect);
    kani::cover!(a.addr_len() == 0);
}

#[kani::proof]
fn c17a_covers_v6() {
    let a = any_v6();
    let b = any_v6();
    let la = a.addr_len() as u32;
    let expect = a.addr_len() <= b.addr_len()
        && (la == 0 || (v6_bits(a) >> (128 - la)) == (v6_bits(b) >> (128 - la)));
    assert!(a.covers(b) == expect);
    kani::cover!(expect && a.addr_len() < b.addr_len());
    kani::cover!(!expect && a.addr_len() < b.addr_len());
    kani::cover!(a.addr_len() == 128 && expect);
    kani::cover!(a.addr_len() == 0);
}

/// Transitivity of covers, used when the tree descends: three arbitrary
/// prefixes.
#[kani::proof]
fn c17a_covers_transitive_v4() {
    let a = any_v4();
    let b = any_v4();
    let c = any_v4();
    if a.covers(b) && b.covers(c) {
        assert!(a.covers(c));
    }
    kani::cover!(a.covers(b) && b.covers(c) && a != b && b != c);
}

/// `bit(i)` is the i-th bit from the left and false past the width.
#[kani::proof]
fn c17a_bit_v4() {
    let a = any_v4();
    let i: u8 = kani::any();
    let expect = i < 32 && (v4_bits(a) >> (31 - i as u32)) & 1 == 1;
    assert!(a.bit(i) == expect);
    kani::cover!(i == 0 && expect);
    kani::cover!(i == 31 && expect);
    kani::cover!(i >= 32);
}

#[kani::proof]
fn c17a_bit_v6() {
    let a = any_v6();
    let i: u8 = kani::any();
    let expect = i < 128 && (v6_bits(a) >> (127 - i as u32)) & 1 == 1;
    assert!(a.bit(i) == expect);
    kani::cover!(i == 0 && expect);
    kani::cover!(i == 127 && expect);
    kani::cover!(i >= 128);
}

/// `closest_ancestor(a, b)` is well-formed, covers both, and is the longest
/// such prefix: one bit longer and either it exceeds one of the lengths or the
/// two differ in that bit.
#[kani::proof]
fn c17a_closest_ancestor_v4() {
    let a = any_v4();
    let b = any_v4();
    let c = a.closest_ancestor(b);
    assert!(c.addr_len() <= 32);
    assert!(c.addr_len() == 32 || v4_bits(c) & (u32::MAX >> c.addr_len()) == 0);
    assert!(c.covers(a) && c.covers(b));
    if c.addr_len() < a.addr_len() && c.addr_len() < b.addr_len() {
        assert!(a.bit(c.addr_len()) != b.bit(c.addr_len()));
    }
    // symmetric
    assert!(b.closest_ancestor(a) == c);
    // if one covers the other, the ancestor is the coverer
    if a.covers(b) {
        assert!(c == a);
    }
    kani::cover!(c.addr_len() < a.addr_len() && c.addr_len() < b.addr_len());
    kani::cover!(c == a && a != b);
    kani::cover!(c.addr_len() == 0 && a.addr_len() > 0 && b.addr_len() > 0);
}

#[kani::proof]
fn c17a_closest_ancestor_v6() {
    let a = any_v6();
    let b = any_v6();
    let c = a.closest_ancestor(b);
    assert!(c.addr_len() <= 128);
    assert!(c.addr_len() == 128 || v6_bits(c) & (u128::MAX >> c.addr_len()) == 0);
    assert!(c.covers(a) && c.covers(b));
    if c.addr_len() < a.addr_len() && c.addr_len() < b.addr_len() {
        assert!(a.bit(c.addr_len()) != b.bit(c.addr_len()));
    }
    if a.covers(b) {
        assert!(c.addr_len() == a.addr_len() && v6_bits(c) == v6_bits(a));
    }
    kani::cover!(c.addr_len() < a.addr_len() && c.addr_len() < b.addr_len());
    kani::cover!(c.addr_len() == a.addr_len() && a.addr_len() < b.addr_len());
}

//------------ C16(a): the same prefix operations as client-controlled arithmetic -

/// ROA prefixes and max lengths come from API clients and feed these
/// operations through the BGP analyser: none of them may panic (shift or
/// subtraction overflow) for any well-formed prefix and any index.
#[kani::proof]
fn c16a_route_prefix_ops_v4() {
    let a = any_v4();
    let b = any_v4();
    let i: u8 = kani::any();
    let _ = a.covers(b);
    let _ = a.closest_ancestor(b);
    let _ = a.bit(i);
    kani::cover!(a.addr_len() == 32 && b.addr_len() == 32);
    kani::cover!(a.addr_len() == 0);
    kani::cover!(i == 255);
}

#[kani::proof]
fn c16a_route_prefix_ops_v6() {
    let a = any_v6();
    let b = any_v6();
    let i: u8 = kani::any();
    let _ = a.covers(b);
    let _ = a.closest_ancestor(b);
    let _ = a.bit(i);
    kani::cover!(a.addr_len() == 128 && b.addr_len() == 128);
    kani::cover!(a.addr_len() == 0);
    kani::cover!(i == 255);
}

//------------ C17(f'): grouping of equal-prefix route origins ----------------

/// `origin_set(idx)` over a sorted box of 3 arbitrary origins returns exactly
/// the maximal run of entries starting at `idx` that share its prefix (never
/// empty) for every index of an existing entry.
#[kani::proof]
#[kani::unwind(6)]
fn c17a_origin_set_runs_v4() {
    let o = |p: Ipv4Prefix| RouteOrigin { prefix: p, origin: AsNumber::from_u32(kani::any()) };
    let (p0, p1, p2) = (any_v4(), any_v4(), any_v4());
    kani::assume(p0 <= p1 && p1 <= p2);
    let b = RouteOriginBox(Box::new([o(p0), o(p1), o(p2)]));
    let idx: usize = kani::any();
    // tree nodes only ever carry indices of existing data entries
    kani::assume(idx < 3);
    match b.origin_set(idx) {
        None => { assert!(false); }
        Some(set) => {
            let n = set.iter().count();
            assert!(set.prefix() == b.0[idx].prefix);
            // exactly the maximal run starting at idx
            let mut expect = 1;
            if idx + 1 < 3 && b.0[idx + 1].prefix == b.0[idx].prefix {
                expect = 2;
                if idx + 2 < 3 && b.0[idx + 2].prefix == b.0[idx].prefix {
                    expect = 3;
                }
            }
            assert!(n == expect);
        }
    }
    kani::cover!(idx == 0 && p0 == p1 && p1 == p2);
    kani::cover!(idx == 1 && p0 != p1 && p1 == p2);
    std::mem::forget(b);
}

//------------ C17(f): radix-tree LOOKUP on small trees of arbitrary prefixes ----
//
// Building the tree under the engine did not fit (DESIGN §1), but the lookup
// (`eq_or_more_specific` = `TreeIter::more_specific` + `TreeIter::next`) does
// when the tree is given: the harness lays out a tree of a fixed SHAPE whose
// prefixes are arbitrary values constrained only by the invariant the builder
// documents (child covered by parent, left/right decided by the bit at the
// parent's length, data sorted), asks for an arbitrary prefix Q, and expects
// exactly the data prefixes Q covers, in tree order.

fn ro(p: Ipv4Prefix) -> RouteOrigin<Ipv4Prefix> {
    RouteOrigin { prefix: p, origin: AsNumber::from_u32(kani::any()) }
}

fn tidx(i: usize) -> TreeIndex { TreeIndex(i as u32) }

fn collect3(c: &RouteOriginCollection<Ipv4Prefix>, q: Ipv4Prefix) -> ([Ipv4Prefix; 3], usize) {
    let mut out = [Ipv4Prefix::default(); 3];
    let mut n = 0;
    let mut it = c.eq_or_more_specific(q);
    let mut guard = 0;
    while guard < 4 {
        match it.next() {
            Some(set) => {
                assert!(n < 3);
                assert!(set.iter().count() == 1);
                out[n] = set.prefix();
                n += 1;
            }
            None => break,
        }
        guard += 1;
    }
    assert!(it.next().is_none());
    std::mem::forget(it);
    (out, n)
}

/// Shape 1: root 0/0 (no data) -> left A -> left C (nested), right B.
// vk: bound=tree of fixed shape (root, A, C under A, B) with arbitrary v4 prefixes satisfying the builder's invariant; arbitrary query prefix
#[kani::proof]
#[kani::unwind(6)]
fn x17f_tree_lookup_nested_v4() {
    let (a, b, c) = (any_v4(), any_v4(), any_v4());
    kani::assume(a.addr_len() >= 1 && !a.bit(0));
    kani::assume(b.addr_len() >= 1 && b.bit(0));
    kani::assume(a.covers(c) && c.addr_len() > a.addr_len() && !c.bit(a.addr_len()));
    // data sorted: a < c < b (same leading bits: a before its more specific c; b has bit 0 set)
    let coll = RouteOriginCollection {
        tree: Box::new([
            TreeNode::new(DataIndex::data(1).unwrap()),                                   // 0: C
            TreeNode::with_children(DataIndex::data(0).unwrap(), tidx(0), TreeIndex::none()), // 1: A
            TreeNode::new(DataIndex::data(2).unwrap()),                                   // 2: B
            TreeNode::with_children(DataIndex::no_data(0).unwrap(), tidx(1), tidx(2)),    // 3: root
        ]),
        tree_root_idx: tidx(3),
        data: RouteOriginBox(Box::new([ro(a), ro(c), ro(b)])),
        no_data: Box::new([Ipv4Prefix::default()]),
    };
    let q = any_v4();
    let (got, n) = collect3(&coll, q);
    let mut want = [Ipv4Prefix::default(); 3];
    let mut m = 0;
    if q.covers(a) { want[m] = a; m += 1; }
    if q.covers(c) { want[m] = c; m += 1; }
    if q.covers(b) { want[m] = b; m += 1; }
    assert!(n == m);
    let mut i = 0;
    while i < m { assert!(got[i] == want[i]); i += 1; }
    kani::cover!(m == 3);
    kani::cover!(m == 2 && q.addr_len() > 0);
    kani::cover!(m == 1 && q.covers(c));
    kani::cover!(m == 1 && q.covers(b));
    kani::cover!(m == 0 && a.covers(q));
    std::mem::forget(coll);
}

/// Shape 2: root 0/0 (no data) -> left X (no data, the closest ancestor of A
/// and B) -> left A, right B.
// vk: bound=tree of fixed shape (root, intermediate no-data node X, A and B under X) with arbitrary v4 prefixes satisfying the builder's invariant; arbitrary query prefix
#[kani::proof]
#[kani::unwind(6)]
fn x17f_tree_lookup_intermediate_v4() {
    let (a, b) = (any_v4(), any_v4());
    let x = a.closest_ancestor(b);
    kani::assume(x.addr_len() >= 1 && !x.bit(0));
    kani::assume(x.addr_len() < a.addr_len() && x.addr_len() < b.addr_len());
    kani::assume(!a.bit(x.addr_len()) && b.bit(x.addr_len()));
    let coll = RouteOriginCollection {
        tree: Box::new([
            TreeNode::new(DataIndex::data(0).unwrap()),                                // 0: A
            TreeNode::new(DataIndex::data(1).unwrap()),                                // 1: B
            TreeNode::with_children(DataIndex::no_data(1).unwrap(), tidx(0), tidx(1)), // 2: X
            TreeNode::with_children(DataIndex::no_data(0).unwrap(), tidx(2), TreeIndex::none()), // 3: root
        ]),
        tree_root_idx: tidx(3),
        data: RouteOriginBox(Box::new([ro(a), ro(b)])),
        no_data: Box::new([Ipv4Prefix::default(), x]),
    };
    let q = any_v4();
    let (got, n) = collect3(&coll, q);
    let mut want = [Ipv4Prefix::default(); 3];
    let mut m = 0;
    if q.covers(a) { want[m] = a; m += 1; }
    if q.covers(b) { want[m] = b; m += 1; }
    assert!(n == m);
    let mut i = 0;
    while i < m { assert!(got[i] == want[i]); i += 1; }
    kani::cover!(m == 2 && q.addr_len() > 0);
    kani::cover!(m == 1 && q.covers(b));
    kani::cover!(m == 1 && q.covers(a) && q != a);
    kani::cover!(m == 0 && x.covers(q));
    std::mem::forget(coll);
}

#[cfg(test)]
#[path = "/verif/.cache/playback/server_bgp_riswhois.rs"]
mod playback;
