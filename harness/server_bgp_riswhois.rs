// Kani harnesses compiled as `mod verif_kani` inside /repo/src/server/bgp/riswhois.rs (cfg(kani) only).
//
// Kernels: <Ipv4Prefix as RoutePrefix>::{covers, closest_ancestor, bit},
// <Ipv6Prefix as RoutePrefix>::{covers, closest_ancestor, bit},
// RouteOriginBox::{next_prefix, origin_set}.
use super::*;
use crate::api::roa::verif_kani::{any_v4, any_v6, v4_bits, v6_bits};

/// Constructor for other harness modules (`RouteOriginSet::new` is private).
pub(crate) fn origin_set<'a, P: RoutePrefix>(
    slice: &'a [RouteOrigin<P>],
) -> RouteOriginSet<'a, P> {
    RouteOriginSet::new(slice)
}

//------------ C17(a): prefix algebra vs. bit-level specifications ------------

#[kani::proof]
fn c17a_covers_v4() {
    let a = any_v4();
    let b = any_v4();
    let la = a.addr_len() as u32;
    let expect = a.addr_len() <= b.addr_len()
        && (la == 0 || (v4_bits(a) >> (32 - la)) == (v4_bits(b) >> (32 - la)));
    assert!(a.covers(b) == expect);
    // covers is reflexive and antisymmetric on well-formed prefixes
    assert!(a.covers(a));
    if a.covers(b) && b.covers(a) {
        assert!(a == b);
    }
    kani::cover!(expect && a.addr_len() < b.addr_len());
    kani::cover!(!expect && a.addr_len() < b.addr_len());
    kani::cover!(a.addr_len() == 32 && expect);
    kani::cover!(a.addr_len() == 0);
}

#[kani::proof]
fn c17a_covers_v6() {
    let a = any_v6();
    let b = any_v6();
    let la = a.addr_len() as u32;
    let expect = a.addr_len() <= b.addr_len()
        && (la == 0 || (v6_bits(a) >> (128 - la)) == (v6_bits(b) >> (128 - la)));
    assert!(a.covers(b) == expect);
    kani::cover!(expect && a.addr_len() < b.addr_len());
    kani::cover!(!expect && a.addr_len() < b.addr_len());
    kani::cover!(a.addr_len() == 128 && expect);
    kani::cover!(a.addr_len() == 0);
}

/// Transitivity of covers, used when the tree descends: three arbitrary
/// prefixes.
#[kani::proof]
fn c17a_covers_transitive_v4() {
    let a = any_v4();
    let b = any_v4();
    let c = any_v4();
    if a.covers(b) && b.covers(c) {
        assert!(a.covers(c));
    }
    kani::cover!(a.covers(b) && b.covers(c) && a != b && b != c);
}

/// `bit(i)` is the i-th bit from the left and false past the width.
#[kani::proof]
fn c17a_bit_v4() {
    let a = any_v4();
    let i: u8 = kani::any();
    let expect = i < 32 && (v4_bits(a) >> (31 - i as u32)) & 1 == 1;
    assert!(a.bit(i) == expect);
    kani::cover!(i == 0 && expect);
    kani::cover!(i == 31 && expect);
    kani::cover!(i >= 32);
}

#[kani::proof]
fn c17a_bit_v6() {
    let a = any_v6();
    let i: u8 = kani::any();
    let expect = i < 128 && (v6_bits(a) >> (127 - i as u32)) & 1 == 1;
    assert!(a.bit(i) == expect);
    kani::cover!(i == 0 && expect);
    kani::cover!(i == 127 && expect);
    kani::cover!(i >= 128);
}

/// `closest_ancestor(a, b)` is well-formed, covers both, and is the longest
/// such prefix: one bit longer and either it exceeds one of the lengths or the
/// two differ in that bit.
#[kani::proof]
fn c17a_closest_ancestor_v4() {
    let a = any_v4();
    let b = any_v4();
    let c = a.closest_ancestor(b);
    assert!(c.addr_len() <= 32);
    assert!(c.addr_len() == 32 || v4_bits(c) & (u32::MAX >> c.addr_len()) == 0);
    assert!(c.covers(a) && c.covers(b));
    if c.addr_len() < a.addr_len() && c.addr_len() < b.addr_len() {
        assert!(a.bit(c.addr_len()) != b.bit(c.addr_len()));
    }
    // symmetric
    assert!(b.closest_ancestor(a) == c);
    // if one covers the other, the ancestor is the coverer
    if a.covers(b) {
        assert!(c == a);
    }
    kani::cover!(c.addr_len() < a.addr_len() && c.addr_len() < b.addr_len());
    kani::cover!(c == a && a != b);
    kani::cover!(c.addr_len() == 0 && a.addr_len() > 0 && b.addr_len() > 0);
}

#[kani::proof]
fn c17a_closest_ancestor_v6() {
    let a = any_v6();
    let b = any_v6();
    let c = a.closest_ancestor(b);
    assert!(c.addr_len() <= 128);
    assert!(c.addr_len() == 128 || v6_bits(c) & (u128::MAX >> c.addr_len()) == 0);
    assert!(c.covers(a) && c.covers(b));
    if c.addr_len() < a.addr_len() && c.addr_len() < b.addr_len() {
        assert!(a.bit(c.addr_len()) != b.bit(c.addr_len()));
    }
    if a.covers(b) {
        assert!(c.addr_len() == a.addr_len() && v6_bits(c) == v6_bits(a));
    }
    kani::cover!(c.addr_len() < a.addr_len() && c.addr_len() < b.addr_len());
    kani::cover!(c.addr_len() == a.addr_len() && a.addr_len() < b.addr_len());
}

//------------ C17(f'): grouping of equal-prefix route origins ----------------

/// `origin_set(idx)` over a sorted box of 3 arbitrary origins returns exactly
/// the maximal run of entries starting at `idx` that share its prefix (never
/// empty) for every index of an existing entry.
#[kani::proof]
#[kani::unwind(6)]
fn c17a_origin_set_runs_v4() {
    let o = |p: Ipv4Prefix| RouteOrigin { prefix: p, origin: AsNumber::from_u32(kani::any()) };
    let (p0, p1, p2) = (any_v4(), any_v4(), any_v4());
    kani::assume(p0 <= p1 && p1 <= p2);
    let b = RouteOriginBox(Box::new([o(p0), o(p1), o(p2)]));
    let idx: usize = kani::any();
    // tree nodes only ever carry indices of existing data entries
    kani::assume(idx < 3);
    match b.origin_set(idx) {
        None => { assert!(false); }
        Some(set) => {
            let n = set.iter().count();
            assert!(set.prefix() == b.0[idx].prefix);
            // exactly the maximal run starting at idx
            let mut expect = 1;
            if idx + 1 < 3 && b.0[idx + 1].prefix == b.0[idx].prefix {
                expect = 2;
                if idx + 2 < 3 && b.0[idx + 2].prefix == b.0[idx].prefix {
                    expect = 3;
                }
            }
            assert!(n == expect);
        }
    }
    kani::cover!(idx == 0 && p0 == p1 && p1 == p2);
    kani::cover!(idx == 1 && p0 != p1 && p1 == p2);
    std::mem::forget(b);
}

#[cfg(test)]
#[path = "/verif/.cache/playback/server_bgp_riswhois.rs"]
mod playback;
