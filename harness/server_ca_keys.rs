// Kani harnesses compiled as `mod verif_kani` inside /repo/src/server/ca/keys.rs (cfg(kani) only).
