// Kani harnesses compiled as `mod verif_kani` inside /repo/src/daemon/http/auth/roles.rs (cfg(kani) only).
//
// Kernels: Role::{is_allowed, simple, complex, with_resources, admin, anonymous,
// readonly, readwrite, testbed}.
use super::*;
use super::super::permission::verif_kani::{any_permission, any_set};

use crate::config::verif_kani::fixed_random_state;

fn handle(s: &'static str) -> MyHandle {
    MyHandle::new(s.into())
}

/// A role without per-CA entries answers non-CA requests with its `none`
/// set and every CA with its `any` set.
#[kani::proof]
#[kani::unwind(4)]
#[kani::stub(std::hash::RandomState::new, fixed_random_state)]
fn c13b_role_without_ca_entries() {
    let none = any_set();
    let any = any_set();
    let p = any_permission();
    let role = Role::complex(none, any, Default::default());
    let ca = handle("ca");
    assert!(role.is_allowed(p, None) == none.has(p));
    assert!(role.is_allowed(p, Some(&ca)) == any.has(p));
    kani::cover!(role.is_allowed(p, None) && !role.is_allowed(p, Some(&ca)));
    kani::cover!(!role.is_allowed(p, None) && role.is_allowed(p, Some(&ca)));
    std::mem::forget(role);
    std::mem::forget(ca);
}

/// Built-in constructors: anonymous denies everything everywhere, admin
/// allows everything everywhere, `simple(s)` answers with `s` in both places.
#[kani::proof]
#[kani::unwind(4)]
#[kani::stub(std::hash::RandomState::new, fixed_random_state)]
fn c13c_builtin_roles() {
    let p = any_permission();
    let ca = handle("ca");
    let anon = Role::anonymous();
    assert!(!anon.is_allowed(p, None) && !anon.is_allowed(p, Some(&ca)));
    let admin = Role::admin();
    assert!(admin.is_allowed(p, None) && admin.is_allowed(p, Some(&ca)));
    let s = any_set();
    let simple = Role::simple(s);
    assert!(simple.is_allowed(p, None) == s.has(p));
    assert!(simple.is_allowed(p, Some(&ca)) == s.has(p));
    kani::cover!(s.has(p));
    kani::cover!(!s.has(p));
    std::mem::forget((anon, admin, simple, ca));
}

/// Per-CA grant takes precedence over the blanket grant: with one per-CA
/// entry for CA "a", requests for "a" are answered from that entry (also when
/// the blanket grant would allow more, or less), requests for any other CA
/// from the blanket grant, non-CA requests from the general grant.
// vk: timeout=900; bound=one per-CA entry, handles "a" and "b" concrete, all three permission sets and the permission symbolic; model map (harness/kani_map.rs)
#[kani::proof]
#[kani::unwind(4)]
#[kani::stub(std::hash::RandomState::new, fixed_random_state)]
fn c13b_role_per_ca_precedence() {
    let none = any_set();
    let any = any_set();
    let pa = any_set();
    let p = any_permission();
    let a = handle("a");
    let b = handle("b");
    let mut map: HashMap<MyHandle, PermissionSet> = HashMap::new();
    map.insert(a.clone(), pa);
    let role = Role::complex(none, any, map);
    assert!(role.is_allowed(p, None) == none.has(p));
    assert!(role.is_allowed(p, Some(&a)) == pa.has(p));
    assert!(role.is_allowed(p, Some(&b)) == any.has(p));
    kani::cover!(pa.has(p) && !any.has(p));
    kani::cover!(!pa.has(p) && any.has(p));
    std::mem::forget((role, a, b));
}

#[cfg(test)]
#[path = "/verif/.cache/playback/daemon_http_auth_roles.rs"]
mod playback;
