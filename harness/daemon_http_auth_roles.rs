// Kani harnesses compiled as `mod verif_kani` inside /repo/src/daemon/http/auth/roles.rs (cfg(kani) only).
//
// Kernels: Role::{is_allowed, simple, complex, with_resources, admin, anonymous,
// readonly, readwrite, testbed}.
use super::*;
use super::super::permission::verif_kani::{any_permission, any_set};

use crate::config::verif_kani::{const_finish, fixed_random_state, noop_write};

fn handle(s: &'static str) -> MyHandle {
    MyHandle::new(s.into())
}

/// A role without per-CA entries answers non-CA requests with its `none`
/// set and every CA with its `any` set.
#[kani::proof]
#[kani::unwind(4)]
#[kani::stub(std::hash::RandomState::new, fixed_random_state)]
fn c13b_role_without_ca_entries() {
    let none = any_set();
    let any = any_set();
    let p = any_permission();
    let role = Role::complex(none, any, Default::default());
    let ca = handle("ca");
    assert!(role.is_allowed(p, None) == none.has(p));
    assert!(role.is_allowed(p, Some(&ca)) == any.has(p));
    kani::cover!(role.is_allowed(p, None) && !role.is_allowed(p, Some(&ca)));
    kani::cover!(!role.is_allowed(p, None) && role.is_allowed(p, Some(&ca)));
    std::mem::forget(role);
    std::mem::forget(ca);
}

/// Built-in constructors: anonymous denies everything everywhere, admin
/// allows everything everywhere, `simple(s)` answers with `s` in both places.
#[kani::proof]
#[kani::unwind(4)]
#[kani::stub(std::hash::RandomState::new, fixed_random_state)]
fn c13c_builtin_roles() {
    let p = any_permission();
    let ca = handle("ca");
    let anon = Role::anonymous();
    assert!(!anon.is_allowed(p, None) && !anon.is_allowed(p, Some(&ca)));
    let admin = Role::admin();
    assert!(admin.is_allowed(p, None) && admin.is_allowed(p, Some(&ca)));
    let s = any_set();
    let simple = Role::simple(s);
    assert!(simple.is_allowed(p, None) == s.has(p));
    assert!(simple.is_allowed(p, Some(&ca)) == s.has(p));
    kani::cover!(s.has(p));
    kani::cover!(!s.has(p));
    std::mem::forget((anon, admin, simple, ca));
}

/// Per-CA grant takes precedence over the blanket grant: a role limited to
/// CA "a" answers requests for "a" with its set and requests for any other CA
/// with nothing; non-CA requests use the general set.
// vk: tier=thorough; timeout=1800; bound=one per-CA entry, handles "a" and "b" concrete, permission sets and permission symbolic
#[kani::proof]
#[kani::unwind(9)]
#[kani::stub(std::hash::RandomState::new, fixed_random_state)]
#[kani::stub(<std::hash::DefaultHasher as std::hash::Hasher>::finish, const_finish)]
#[kani::stub(<std::hash::DefaultHasher as std::hash::Hasher>::write, noop_write)]
fn x13b_role_per_ca_precedence() {
    let s = any_set();
    let p = any_permission();
    let a = handle("a");
    let b = handle("b");
    let role = Role::with_resources(s, [a.clone()]);
    assert!(role.is_allowed(p, None) == s.has(p));
    assert!(role.is_allowed(p, Some(&a)) == s.has(p));
    assert!(!role.is_allowed(p, Some(&b)));
    kani::cover!(role.is_allowed(p, Some(&a)));
    std::mem::forget((role, a, b));
}

#[cfg(test)]
#[path = "/verif/.cache/playback/daemon_http_auth_roles.rs"]
mod playback;
