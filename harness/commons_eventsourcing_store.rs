// Kani harnesses compiled as `mod verif_kani` inside /repo/src/commons/eventsourcing/store.rs (cfg(kani) only).
