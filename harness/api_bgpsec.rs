// Kani harnesses compiled as `mod verif_kani` inside /repo/src/api/bgpsec.rs (cfg(kani) only).
