// Kani harnesses compiled as `mod verif_kani` inside /repo/src/server/pubd/content.rs (cfg(kani) only).
