// Kani harnesses compiled as `mod verif_kani` inside /repo/src/daemon/http/auth/permission.rs (cfg(kani) only).
//
// Kernels: PermissionSet::{mask, add, add_set, remove, has, iter, from_permissions},
// ConfPermission::add, From<Vec<ConfPermission>> for PermissionSet, Permission::iter,
// PermissionSet::{NONE, ANY, CONF_READ, CONF_UPDATE}.
use super::*;

/// An arbitrary one of the declared permissions (all 22 variants).
pub(crate) fn any_permission() -> Permission {
    let i: usize = kani::any();
    kani::assume(i < ALL_PERMISSIONS.len());
    ALL_PERMISSIONS[i]
}

/// An arbitrary permission set (every u32 bit pattern, including bits no
/// variant uses: `ANY` is u32::MAX).
pub(crate) fn any_set() -> PermissionSet {
    PermissionSet(kani::any())
}

pub(crate) fn set_bits(s: PermissionSet) -> u32 { s.0 }

fn same(p: Permission, q: Permission) -> bool { p as u32 == q as u32 }

/// Set algebra: after add(p) the set has p; after remove(p) it does not; no
/// other permission changes either way; distinct variants have distinct bits.
#[kani::proof]
fn c13a_set_algebra() {
    let s = any_set();
    let p = any_permission();
    let q = any_permission();
    assert!(s.add(p).has(p));
    assert!(!s.remove(p).has(p));
    if !same(p, q) {
        assert!(s.add(p).has(q) == s.has(q));
        assert!(s.remove(p).has(q) == s.has(q));
        // distinct masks: a set holding only p does not hold q
        assert!(!PermissionSet::NONE.add(p).has(q));
    }
    let t = any_set();
    assert!(s.add_set(t).has(p) == (s.has(p) || t.has(p)));
    // the discriminant is a valid shift amount for every variant
    assert!((p as u32) < 32);
    kani::cover!(s.has(p) && !s.has(q));
    kani::cover!(!s.has(p) && t.has(p));
    kani::cover!(same(p, q));
}

/// NONE holds nothing, ANY holds every variant ("anonymous gets nothing, the
/// admin token gets everything" rest on these two facts).
#[kani::proof]
fn c13c_none_and_any() {
    let p = any_permission();
    assert!(!PermissionSet::NONE.has(p));
    assert!(PermissionSet::ANY.has(p));
    assert!(!PermissionSet::default().has(p));
    kani::cover!(matches!(p, Permission::Login));
    kani::cover!(matches!(p, Permission::RtaUpdate));
}

/// `iter` yields exactly the permissions the set has.
#[kani::proof]
#[kani::unwind(24)]
fn c13a_iter_agrees_with_has() {
    let s = any_set();
    let p = any_permission();
    let listed = s.iter().any(|x| same(x, p));
    assert!(listed == s.has(p));
    assert!(Permission::iter().count() == 22);
    kani::cover!(listed);
    kani::cover!(!listed);
}

/// Building a set from a list (const constructor and the config-file
/// conversion) yields exactly the union of the listed items.
#[kani::proof]
#[kani::unwind(4)]
fn c13a_from_lists() {
    let a = any_permission();
    let b = any_permission();
    let q = any_permission();
    let s = PermissionSet::from_permissions(&[a, b]);
    assert!(s.has(q) == (same(q, a) || same(q, b)));
    let t = PermissionSet::from(vec![ConfPermission::Single(a), ConfPermission::Single(b)]);
    assert!(t == s);
    let e = PermissionSet::from(Vec::<ConfPermission>::new());
    assert!(e == PermissionSet::NONE);
    kani::cover!(s.has(q));
    kani::cover!(!s.has(q));
}

/// Config globs: "read" adds exactly the read set, "update" exactly the
/// update set, "any" everything; none of them removes anything.
#[kani::proof]
#[kani::unwind(13)]
fn c13a_conf_globs() {
    let s = any_set();
    let q = any_permission();
    let r = ConfPermission::Read.add(s);
    assert!(r.has(q) == (s.has(q) || PermissionSet::CONF_READ.has(q)));
    let u = ConfPermission::Update.add(s);
    assert!(u.has(q) == (s.has(q) || PermissionSet::CONF_UPDATE.has(q)));
    let a = ConfPermission::Any.add(s);
    assert!(a.has(q));
    let p = any_permission();
    let one = ConfPermission::Single(p).add(s);
    assert!(one.has(q) == (s.has(q) || same(p, q)));
    // the read glob never grants a state-changing permission
    for w in [Permission::CaUpdate, Permission::CaCreate, Permission::CaDelete, Permission::CaAdmin,
              Permission::RoutesUpdate, Permission::AspasUpdate, Permission::BgpsecUpdate,
              Permission::RtaUpdate, Permission::PubAdmin, Permission::PubCreate, Permission::PubDelete] {
        assert!(!ConfPermission::Read.add(PermissionSet::NONE).has(w));
    }
    kani::cover!(!s.has(q) && r.has(q));
    kani::cover!(!s.has(q) && !r.has(q));
    kani::cover!(!s.has(q) && u.has(q));
}

#[cfg(test)]
#[path = "/verif/.cache/playback/daemon_http_auth_permission.rs"]
mod playback;
