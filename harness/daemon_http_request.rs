// Kani harnesses compiled as `mod verif_kani` inside /repo/src/daemon/http/request.rs (cfg(kani) only).
//
// Kernels: PathIter::{new, next, strip_trailing_slash, remaining, full}.
use super::*;
use crate::api::roa::verif_kani::any_ascii;

fn check_path_iter<const N: usize>() {
    let (buf, len) = any_ascii::<N>();
    let Ok(s) = std::str::from_utf8(&buf[..len]) else { return };
    let mut it = PathIter::new(s);
    let mut n = 0;
    let mut total = 0;
    while n <= N {
        match it.next() {
            Some(seg) => {
                // a segment never contains a slash and the segments add up
                let b = seg.as_bytes();
                let mut j = 0;
                while j < b.len() { assert!(b[j] != b'/'); j += 1; }
                total += b.len();
            }
            None => break,
        }
        n += 1;
    }
    assert!(it.next().is_none());
    assert!(total <= len);
    let t = PathIter::new(s).strip_trailing_slash();
    assert!(t.full().len() <= len);
    if let Some(r) = t.remaining() { assert!(r.len() <= len); }
    kani::cover!(n >= 2);
    kani::cover!(n == 1 && len > 0);
}

/// Every request path of up to 3 ASCII bytes (the HTTP layer rejects
/// non-UTF-8 paths before): segmenting never panics, never slices out of
/// bounds, segments are slash-free.
// vk: timeout=900; bound=paths of 0..=3 ASCII bytes
#[kani::proof]
#[kani::unwind(6)]
fn c16f_path_iter_3() {
    check_path_iter::<3>();
}

// vk: tier=thorough; timeout=2400; bound=paths of 0..=4 ASCII bytes (5 bytes exceeded the 14 GB cap, 8 bytes ran out of memory)
#[kani::proof]
#[kani::unwind(7)]
fn c16f_path_iter_4() {
    check_path_iter::<4>();
}

#[cfg(test)]
#[path = "/verif/.cache/playback/daemon_http_request.rs"]
mod playback;
