// Kani harnesses compiled as `mod verif_kani` inside /repo/src/daemon/http/request.rs (cfg(kani) only).
