//! Model of `std::collections::HashMap` used ONLY under `cfg(kani)`.
//!
//! std's hash map (SipHash over a random seed, SwissTable control bytes, SIMD
//! group probing) is what made every map-based krill function time out under
//! CBMC (DESIGN §1).  Under `cfg(kani)` the hooked krill modules import this
//! type instead: an association list with the same observable behaviour for the
//! API subset krill uses (at most one entry per key, `insert` replaces and
//! returns the old value, `remove` returns the removed value, equality is
//! order-insensitive).  Iteration order is insertion order - one of the orders
//! std may produce; krill code must not depend on it, and harnesses never
//! assert anything about order.
//!
//! The model is part of the trusted base of every harness that executes map
//! code; it is listed as an assumption in the evidence files.

#![allow(dead_code)]

use std::borrow::Borrow;
use std::fmt;

pub struct HashMap<K, V> {
    items: Vec<(K, V)>,
}

impl<K, V> HashMap<K, V> {
    pub fn new() -> Self {
        HashMap { items: Vec::new() }
    }

    pub fn with_capacity(n: usize) -> Self {
        HashMap { items: Vec::with_capacity(n) }
    }

    pub fn len(&self) -> usize {
        self.items.len()
    }

    pub fn is_empty(&self) -> bool {
        self.items.is_empty()
    }

    pub fn clear(&mut self) {
        self.items.clear()
    }

    pub fn iter(&self) -> Iter<'_, K, V> {
        Iter { inner: self.items.iter() }
    }

    pub fn iter_mut(&mut self) -> IterMut<'_, K, V> {
        IterMut { inner: self.items.iter_mut() }
    }

    pub fn keys(&self) -> Keys<'_, K, V> {
        Keys { inner: self.items.iter() }
    }

    pub fn values(&self) -> Values<'_, K, V> {
        Values { inner: self.items.iter() }
    }

    pub fn values_mut(&mut self) -> ValuesMut<'_, K, V> {
        ValuesMut { inner: self.items.iter_mut() }
    }

    pub fn into_keys(self) -> impl Iterator<Item = K> {
        self.items.into_iter().map(|(k, _)| k)
    }

    pub fn into_values(self) -> impl Iterator<Item = V> {
        self.items.into_iter().map(|(_, v)| v)
    }

    pub fn drain(&mut self) -> std::vec::Drain<'_, (K, V)> {
        self.items.drain(..)
    }

    pub fn retain<F: FnMut(&K, &mut V) -> bool>(&mut self, mut f: F) {
        self.items.retain_mut(|(k, v)| f(k, v))
    }
}

impl<K, V> HashMap<K, V> {
    /// Removes the element at `i`, keeping the order of the others.  Written
    /// with adjacent swaps and a `pop` instead of `Vec::remove`: the latter is
    /// a `memmove` whose length depends on `i`, and `i` is symbolic whenever
    /// key equality is (CBMC's array copy with a symbolic size was what blew
    /// up every harness that removed from a map).
    fn take_at(&mut self, i: usize) -> (K, V) {
        let n = self.items.len();
        let mut j = i;
        while j + 1 < n {
            self.items.swap(j, j + 1);
            j += 1;
        }
        match self.items.pop() {
            Some(kv) => kv,
            None => unreachable!(),
        }
    }
}

impl<K: Eq, V> HashMap<K, V> {
    // Every operation walks the list with a loop counter and acts *inside*
    // the loop, at the counter's value.  The counter is a concrete number in
    // each unrolled iteration, so CBMC indexes the backing array at concrete
    // positions under symbolic guards.  (An earlier version computed the
    // position first and indexed afterwards: a symbolic index into an array of
    // structs, which is what produced SAT instances of 90 M clauses.)

    fn pos<Q: ?Sized + Eq>(&self, k: &Q) -> Option<usize>
    where
        K: Borrow<Q>,
    {
        let mut i = 0;
        while i < self.items.len() {
            if self.items[i].0.borrow() == k {
                return Some(i);
            }
            i += 1;
        }
        None
    }

    pub fn get<Q: ?Sized + Eq>(&self, k: &Q) -> Option<&V>
    where
        K: Borrow<Q>,
    {
        let mut i = 0;
        while i < self.items.len() {
            if self.items[i].0.borrow() == k {
                return Some(&self.items[i].1);
            }
            i += 1;
        }
        None
    }

    pub fn get_key_value<Q: ?Sized + Eq>(&self, k: &Q) -> Option<(&K, &V)>
    where
        K: Borrow<Q>,
    {
        let mut i = 0;
        while i < self.items.len() {
            if self.items[i].0.borrow() == k {
                return Some((&self.items[i].0, &self.items[i].1));
            }
            i += 1;
        }
        None
    }

    pub fn get_mut<Q: ?Sized + Eq>(&mut self, k: &Q) -> Option<&mut V>
    where
        K: Borrow<Q>,
    {
        let n = self.items.len();
        let mut i = 0;
        while i < n {
            if self.items[i].0.borrow() == k {
                return Some(&mut self.items[i].1);
            }
            i += 1;
        }
        None
    }

    pub fn contains_key<Q: ?Sized + Eq>(&self, k: &Q) -> bool
    where
        K: Borrow<Q>,
    {
        let mut i = 0;
        while i < self.items.len() {
            if self.items[i].0.borrow() == k {
                return true;
            }
            i += 1;
        }
        false
    }

    pub fn insert(&mut self, k: K, v: V) -> Option<V> {
        let n = self.items.len();
        let mut i = 0;
        while i < n {
            if self.items[i].0 == k {
                return Some(std::mem::replace(&mut self.items[i].1, v));
            }
            i += 1;
        }
        self.items.push((k, v));
        None
    }

    pub fn remove<Q: ?Sized + Eq>(&mut self, k: &Q) -> Option<V>
    where
        K: Borrow<Q>,
    {
        match self.remove_entry(k) {
            Some(kv) => Some(kv.1),
            None => None,
        }
    }

    pub fn remove_entry<Q: ?Sized + Eq>(&mut self, k: &Q) -> Option<(K, V)>
    where
        K: Borrow<Q>,
    {
        let n = self.items.len();
        let mut i = 0;
        while i < n {
            if self.items[i].0.borrow() == k {
                return Some(self.take_at(i));
            }
            i += 1;
        }
        None
    }

    pub fn entry(&mut self, k: K) -> Entry<'_, K, V> {
        match self.pos(&k) {
            Some(i) => Entry::Occupied(OccupiedEntry { map: self, idx: i, key: k }),
            None => Entry::Vacant(VacantEntry { map: self, key: k }),
        }
    }
}

//------------ Entry ---------------------------------------------------------

pub enum Entry<'a, K, V> {
    Occupied(OccupiedEntry<'a, K, V>),
    Vacant(VacantEntry<'a, K, V>),
}

pub struct OccupiedEntry<'a, K, V> {
    map: &'a mut HashMap<K, V>,
    idx: usize,
    key: K,
}

pub struct VacantEntry<'a, K, V> {
    map: &'a mut HashMap<K, V>,
    key: K,
}

impl<'a, K, V> Entry<'a, K, V> {
    pub fn or_insert(self, default: V) -> &'a mut V {
        match self {
            Entry::Occupied(e) => e.into_mut(),
            Entry::Vacant(e) => e.insert(default),
        }
    }

    pub fn or_insert_with<F: FnOnce() -> V>(self, f: F) -> &'a mut V {
        match self {
            Entry::Occupied(e) => e.into_mut(),
            Entry::Vacant(e) => e.insert(f()),
        }
    }

    pub fn or_default(self) -> &'a mut V
    where
        V: Default,
    {
        self.or_insert_with(V::default)
    }

    pub fn and_modify<F: FnOnce(&mut V)>(mut self, f: F) -> Self {
        if let Entry::Occupied(ref mut e) = self {
            f(e.get_mut())
        }
        self
    }

    pub fn key(&self) -> &K {
        match self {
            Entry::Occupied(e) => &e.key,
            Entry::Vacant(e) => &e.key,
        }
    }
}

impl<'a, K, V> OccupiedEntry<'a, K, V> {
    pub fn get(&self) -> &V {
        &self.map.items[self.idx].1
    }

    pub fn get_mut(&mut self) -> &mut V {
        &mut self.map.items[self.idx].1
    }

    pub fn into_mut(self) -> &'a mut V {
        &mut self.map.items[self.idx].1
    }

    pub fn key(&self) -> &K {
        &self.key
    }

    pub fn insert(&mut self, v: V) -> V {
        std::mem::replace(&mut self.map.items[self.idx].1, v)
    }

    pub fn remove(self) -> V {
        self.map.take_at(self.idx).1
    }
}

impl<'a, K, V> VacantEntry<'a, K, V> {
    pub fn insert(self, v: V) -> &'a mut V {
        self.map.items.push((self.key, v));
        let n = self.map.items.len() - 1;
        &mut self.map.items[n].1
    }

    pub fn key(&self) -> &K {
        &self.key
    }
}

//------------ Iterators -----------------------------------------------------

pub struct Iter<'a, K, V> {
    inner: std::slice::Iter<'a, (K, V)>,
}

impl<'a, K, V> Iterator for Iter<'a, K, V> {
    type Item = (&'a K, &'a V);
    fn next(&mut self) -> Option<Self::Item> {
        self.inner.next().map(|kv| (&kv.0, &kv.1))
    }
    fn size_hint(&self) -> (usize, Option<usize>) {
        self.inner.size_hint()
    }
}

impl<'a, K, V> ExactSizeIterator for Iter<'a, K, V> {}

impl<'a, K, V> Clone for Iter<'a, K, V> {
    fn clone(&self) -> Self {
        Iter { inner: self.inner.clone() }
    }
}

pub struct IterMut<'a, K, V> {
    inner: std::slice::IterMut<'a, (K, V)>,
}

impl<'a, K, V> Iterator for IterMut<'a, K, V> {
    type Item = (&'a K, &'a mut V);
    fn next(&mut self) -> Option<Self::Item> {
        self.inner.next().map(|kv| (&kv.0, &mut kv.1))
    }
}

pub struct Keys<'a, K, V> {
    inner: std::slice::Iter<'a, (K, V)>,
}

impl<'a, K, V> Iterator for Keys<'a, K, V> {
    type Item = &'a K;
    fn next(&mut self) -> Option<Self::Item> {
        self.inner.next().map(|kv| &kv.0)
    }
    fn size_hint(&self) -> (usize, Option<usize>) {
        self.inner.size_hint()
    }
}

impl<'a, K, V> ExactSizeIterator for Keys<'a, K, V> {}

impl<'a, K, V> Clone for Keys<'a, K, V> {
    fn clone(&self) -> Self {
        Keys { inner: self.inner.clone() }
    }
}

pub struct Values<'a, K, V> {
    inner: std::slice::Iter<'a, (K, V)>,
}

impl<'a, K, V> Iterator for Values<'a, K, V> {
    type Item = &'a V;
    fn next(&mut self) -> Option<Self::Item> {
        self.inner.next().map(|kv| &kv.1)
    }
    fn size_hint(&self) -> (usize, Option<usize>) {
        self.inner.size_hint()
    }
}

impl<'a, K, V> ExactSizeIterator for Values<'a, K, V> {}

impl<'a, K, V> Clone for Values<'a, K, V> {
    fn clone(&self) -> Self {
        Values { inner: self.inner.clone() }
    }
}

pub struct ValuesMut<'a, K, V> {
    inner: std::slice::IterMut<'a, (K, V)>,
}

impl<'a, K, V> Iterator for ValuesMut<'a, K, V> {
    type Item = &'a mut V;
    fn next(&mut self) -> Option<Self::Item> {
        self.inner.next().map(|kv| &mut kv.1)
    }
}

pub struct IntoIter<K, V> {
    inner: std::vec::IntoIter<(K, V)>,
}

impl<K, V> Iterator for IntoIter<K, V> {
    type Item = (K, V);
    fn next(&mut self) -> Option<Self::Item> {
        self.inner.next()
    }
    fn size_hint(&self) -> (usize, Option<usize>) {
        self.inner.size_hint()
    }
}

impl<K, V> ExactSizeIterator for IntoIter<K, V> {}

impl<K, V> IntoIterator for HashMap<K, V> {
    type Item = (K, V);
    type IntoIter = IntoIter<K, V>;
    fn into_iter(self) -> Self::IntoIter {
        IntoIter { inner: self.items.into_iter() }
    }
}

/// Stand-in for the module `std::collections::hash_map`.
pub mod hash_map {
    pub use super::{Entry, HashMap, IntoIter, Iter, IterMut, Keys, OccupiedEntry, VacantEntry, Values, ValuesMut};
}

impl<'a, K, V> IntoIterator for &'a HashMap<K, V> {
    type Item = (&'a K, &'a V);
    type IntoIter = Iter<'a, K, V>;
    fn into_iter(self) -> Self::IntoIter {
        self.iter()
    }
}

impl<'a, K, V> IntoIterator for &'a mut HashMap<K, V> {
    type Item = (&'a K, &'a mut V);
    type IntoIter = IterMut<'a, K, V>;
    fn into_iter(self) -> Self::IntoIter {
        self.iter_mut()
    }
}

//------------ Std traits ----------------------------------------------------

impl<K, V> Default for HashMap<K, V> {
    fn default() -> Self {
        Self::new()
    }
}

impl<K: Clone, V: Clone> Clone for HashMap<K, V> {
    fn clone(&self) -> Self {
        HashMap { items: self.items.clone() }
    }
}

impl<K: fmt::Debug, V: fmt::Debug> fmt::Debug for HashMap<K, V> {
    fn fmt(&self, f: &mut fmt::Formatter<'_>) -> fmt::Result {
        f.debug_map().entries(self.iter()).finish()
    }
}

impl<K: Eq, V: PartialEq> PartialEq for HashMap<K, V> {
    fn eq(&self, other: &Self) -> bool {
        if self.len() != other.len() {
            return false;
        }
        let mut i = 0;
        while i < self.items.len() {
            match other.get(&self.items[i].0) {
                Some(v) => {
                    if *v != self.items[i].1 {
                        return false;
                    }
                }
                None => return false,
            }
            i += 1;
        }
        true
    }
}

impl<K: Eq, V: Eq> Eq for HashMap<K, V> {}

impl<K: Eq, V> FromIterator<(K, V)> for HashMap<K, V> {
    fn from_iter<I: IntoIterator<Item = (K, V)>>(iter: I) -> Self {
        let mut m = HashMap::new();
        for (k, v) in iter {
            m.insert(k, v);
        }
        m
    }
}

impl<K: Eq, V> Extend<(K, V)> for HashMap<K, V> {
    fn extend<I: IntoIterator<Item = (K, V)>>(&mut self, iter: I) {
        for (k, v) in iter {
            self.insert(k, v);
        }
    }
}

impl<K: Eq, V, const N: usize> From<[(K, V); N]> for HashMap<K, V> {
    fn from(a: [(K, V); N]) -> Self {
        let mut m = HashMap::new();
        for (k, v) in a {
            m.insert(k, v);
        }
        m
    }
}

impl<K: Eq + Borrow<Q>, Q: ?Sized + Eq, V> std::ops::Index<&Q> for HashMap<K, V> {
    type Output = V;
    fn index(&self, k: &Q) -> &V {
        self.get(k).expect("no entry found for key")
    }
}

//------------ Serde (compile-only: never executed by a harness) -------------

impl<K: serde::Serialize, V: serde::Serialize> serde::Serialize for HashMap<K, V> {
    fn serialize<S: serde::Serializer>(&self, s: S) -> Result<S::Ok, S::Error> {
        s.collect_map(self.iter())
    }
}

impl<'de, K: serde::Deserialize<'de> + Eq, V: serde::Deserialize<'de>> serde::Deserialize<'de> for HashMap<K, V> {
    fn deserialize<D: serde::Deserializer<'de>>(_d: D) -> Result<Self, D::Error> {
        unimplemented!("kani map model: deserialisation is never executed")
    }
}
