// Kani harnesses compiled as `mod verif_kani` inside /repo/src/server/pubd/access.rs (cfg(kani) only).
