// Kani harnesses compiled as `mod verif_kani` inside /repo/src/commons/storage/backends/memory.rs (cfg(kani) only).
