// Kani harnesses compiled as `mod verif_kani` inside /repo/src/server/ca/rc.rs (cfg(kani) only).
