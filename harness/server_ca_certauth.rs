// Kani harnesses compiled as `mod verif_kani` inside /repo/src/server/ca/certauth.rs (cfg(kani) only).
