// Kani harnesses compiled as `mod verif_kani` inside /repo/src/config.rs (cfg(kani) only).
//
// Shared symbolic clock + kernels: IssuanceTimingConfig::{publish_next,
// publish_hours_before_next, new_*_validity, new_*_issuance_threshold,
// new_child_cert_not_after}.
use super::*;
use rpki::repository::x509::Time;
#[allow(unused_imports)]
use rand::rng as rand_thread_rng;

//------------ hash stubs -------------------------------------------------------

/// Replacement bodies for `<DefaultHasher as Hasher>::{write, finish}`: a
/// constant hash. Any hash function is a valid one for `HashMap` (only
/// `Eq` decides membership), so results under this stub hold for the real
/// SipHash as far as map *semantics* go; SipHash itself (13 rounds over
/// symbolic data) is what CBMC cannot afford.
pub(crate) fn const_finish(_s: &std::hash::DefaultHasher) -> u64 { 0 }
pub(crate) fn noop_write(_s: &mut std::hash::DefaultHasher, _b: &[u8]) {}

//------------ the symbolic clock ---------------------------------------------
//
// One instant per harness: 2024-01-01T00:00:00Z plus a symbolic number of
// seconds in 0..2^20 (about 12 days). `Time::now` is replaced (kani::stub) by
// a function reading that one instant, so every call inside the code under
// test sees the same "now" (a per-call symbolic clock gave spurious
// not_before > not_after orderings in the probes). In native replay the same
// instant is served to the real `Time::now` through the LD_PRELOAD clock shim
// (VK_FAKE_NOW), see bin/vk.

static mut NOW_OFFSET_S: u32 = 0;

pub(crate) const WINDOW_S: u32 = 1 << 20;

pub(crate) fn t0() -> Time {
    Time::utc(2024, 1, 1, 0, 0, 0)
}

/// Draws the harness's symbolic instant. Call once, first.
pub(crate) fn sym_now() -> Time {
    let s: u32 = kani::any();
    kani::assume(s < WINDOW_S);
    unsafe { NOW_OFFSET_S = s; }
    #[cfg(test)]
    unsafe { std::env::set_var("VK_FAKE_NOW", (1_704_067_200i64 + s as i64).to_string()); }
    stub_now()
}

/// Moves the harness clock forward to a later symbolic instant inside the
/// window (between two calls into the code under test, never during one).
pub(crate) fn advance_now() -> Time {
    let s: u32 = kani::any();
    kani::assume(s < WINDOW_S);
    kani::assume(s > unsafe { NOW_OFFSET_S });
    unsafe { NOW_OFFSET_S = s; }
    #[cfg(test)]
    unsafe { std::env::set_var("VK_FAKE_NOW", (1_704_067_200i64 + s as i64).to_string()); }
    stub_now()
}

pub(crate) fn now_offset() -> u32 { unsafe { NOW_OFFSET_S } }

/// Replacement body for `rpki::repository::x509::Time::now`.
pub(crate) fn stub_now() -> Time {
    t0() + Duration::seconds(unsafe { NOW_OFFSET_S } as i64)
}

//------------ fixtures --------------------------------------------------------

/// `HashMap::new()` draws its seed through a getrandom syscall, which CBMC
/// cannot execute; the seed is irrelevant to every property checked here.
/// Replacement body for `std::hash::RandomState::new`.
pub(crate) fn fixed_random_state() -> std::hash::RandomState {
    unsafe { std::mem::transmute::<(u64, u64), std::hash::RandomState>((0u64, 0u64)) }
}

/// A timing configuration with every lifetime/margin an arbitrary value below
/// `cap` (weeks resp. hours).
pub(crate) fn any_timing(cap: u32) -> IssuanceTimingConfig {
    let f = || { let v: u32 = kani::any(); kani::assume(v <= cap); v };
    IssuanceTimingConfig {
        timing_publish_next_hours: f(),
        timing_publish_next_jitter_hours: 0,
        timing_publish_hours_before_next: f(),
        timing_child_certificate_valid_weeks: f(),
        timing_child_certificate_reissue_weeks_before: f(),
        timing_roa_valid_weeks: f(),
        timing_roa_reissue_weeks_before: f(),
        timing_aspa_valid_weeks: f(),
        timing_aspa_reissue_weeks_before: f(),
        timing_bgpsec_valid_weeks: f(),
        timing_bgpsec_reissue_weeks_before: f(),
    }
}

fn five_min() -> Duration { Duration::minutes(5) }

/// Replacement body for `rand::rng`: configurations with jitter are outside
/// the bound (the generator seeds itself from the OS); with jitter 0 the
/// generator must not be entered at all, which this stub turns into an
/// assertion. (Kani 0.68 also cannot compile rand's generator: ICE in
/// kani-compiler/src/intrinsics.rs.)
pub(crate) fn stub_rng() -> rand::rngs::ThreadRng {
    panic!("random number generator entered although jitter is 0")
}

//------------ C14(b): validity windows and thresholds from configuration ------

fn check_validity(v: rpki::repository::x509::Validity, now: Time, weeks: u32) {
    assert!(v.not_before() == now - five_min());
    assert!(v.not_after() == now + Duration::weeks(weeks as i64));
    assert!(v.not_before() <= now && now <= v.not_after());
}

/// For every configured lifetime and margin and every `now` in the window:
/// ROA validity = [now - 5 min, now + lifetime] (contains the present); the
/// re-issue threshold = now + margin; a fresh ROA is at or below the
/// threshold (i.e. due at once) iff margin >= lifetime.
// vk: bound=lifetimes and margins 0..=255 weeks, now in a 2^20 s window
#[kani::proof]
#[kani::stub(rpki::repository::x509::Time::now, stub_now)]
fn c14b_timing_roa() {
    let now = sym_now();
    let t = any_timing(255);
    check_validity(t.new_roa_validity(), now, t.timing_roa_valid_weeks);
    let thr = t.new_roa_issuance_threshold();
    assert!(thr == now + Duration::weeks(t.timing_roa_reissue_weeks_before as i64));
    let due = t.new_roa_validity().not_after() <= thr;
    assert!(due == (t.timing_roa_reissue_weeks_before >= t.timing_roa_valid_weeks));
    kani::cover!(due);
    kani::cover!(!due);
    kani::cover!(t.timing_roa_valid_weeks == 0);
    kani::cover!(t.timing_roa_valid_weeks == 255);
}

fn check_timing_aspa(cap: u32) {
    let now = sym_now();
    let t = any_timing(cap);
    check_validity(t.new_aspa_validity(), now, t.timing_aspa_valid_weeks);
    assert!(t.new_aspa_issuance_threshold() == now + Duration::weeks(t.timing_aspa_reissue_weeks_before as i64));
    kani::cover!(t.timing_aspa_valid_weeks > t.timing_aspa_reissue_weeks_before);
    kani::cover!(t.timing_aspa_valid_weeks == 0);
    kani::cover!(t.timing_aspa_reissue_weeks_before != t.timing_roa_reissue_weeks_before);
}

fn check_timing_bgpsec(cap: u32) {
    let now = sym_now();
    let t = any_timing(cap);
    check_validity(t.new_bgpsec_validity(), now, t.timing_bgpsec_valid_weeks);
    assert!(t.new_bgpsec_issuance_threshold() == now + Duration::weeks(t.timing_bgpsec_reissue_weeks_before as i64));
    kani::cover!(t.timing_bgpsec_valid_weeks > t.timing_bgpsec_reissue_weeks_before);
    kani::cover!(t.timing_bgpsec_valid_weeks == 0);
    kani::cover!(t.timing_bgpsec_reissue_weeks_before != t.timing_roa_reissue_weeks_before);
}

fn check_timing_child(cap: u32) {
    let now = sym_now();
    let t = any_timing(cap);
    let v = t.new_child_cert_validity();
    check_validity(v, now, t.timing_child_certificate_valid_weeks);
    assert!(t.new_child_cert_not_after() == v.not_after());
    assert!(t.new_child_cert_issuance_threshold()
        == now + Duration::weeks(t.timing_child_certificate_reissue_weeks_before as i64));
    kani::cover!(t.timing_child_certificate_valid_weeks > t.timing_child_certificate_reissue_weeks_before);
    kani::cover!(t.timing_child_certificate_valid_weeks == 0);
}

/// ASPA, BGPsec and child-certificate lifetimes and margins: each function
/// uses its OWN configured value (all eleven configuration values are
/// independent symbolic inputs).
// vk: bound=lifetimes and margins 0..=15 weeks, now in a 2^20 s window
#[kani::proof]
#[kani::stub(rpki::repository::x509::Time::now, stub_now)]
fn c14b_timing_aspa_15() { check_timing_aspa(15); }

// vk: bound=lifetimes and margins 0..=15 weeks, now in a 2^20 s window
#[kani::proof]
#[kani::stub(rpki::repository::x509::Time::now, stub_now)]
fn c14b_timing_bgpsec_15() { check_timing_bgpsec(15); }

// vk: bound=lifetimes and margins 0..=15 weeks, now in a 2^20 s window
#[kani::proof]
#[kani::stub(rpki::repository::x509::Time::now, stub_now)]
fn c14b_timing_child_cert_15() { check_timing_child(15); }

// vk: tier=thorough; timeout=1800; bound=lifetimes and margins 0..=255 weeks, now in a 2^20 s window
#[kani::proof]
#[kani::stub(rpki::repository::x509::Time::now, stub_now)]
fn c14b_timing_aspa_255() { check_timing_aspa(255); }

// vk: tier=thorough; timeout=1800; bound=lifetimes and margins 0..=255 weeks, now in a 2^20 s window
#[kani::proof]
#[kani::stub(rpki::repository::x509::Time::now, stub_now)]
fn c14b_timing_bgpsec_255() { check_timing_bgpsec(255); }

// vk: tier=thorough; timeout=1800; bound=lifetimes and margins 0..=255 weeks, now in a 2^20 s window
#[kani::proof]
#[kani::stub(rpki::repository::x509::Time::now, stub_now)]
fn c14b_timing_child_cert_255() { check_timing_child(255); }

//------------ C14(c): next-update of manifests and CRLs ------------------------

fn check_publish_next(cap: u32) {
    let now = sym_now();
    let t = any_timing(cap);
    let next = t.publish_next();
    assert!(next == now + Duration::hours(t.timing_publish_next_hours as i64));
    assert!(next >= now);
    assert!(t.publish_hours_before_next() == t.timing_publish_hours_before_next as i64);
    kani::cover!(t.timing_publish_next_hours == 0);
    kani::cover!(t.timing_publish_next_hours == cap);
}

/// Without jitter, `publish_next` = now + configured hours, the random number
/// generator is not entered, and the configured margin is returned unchanged.
// vk: bound=hours 0..=255, now in a 2^20 s window, timing_publish_next_jitter_hours = 0 (jitter draws from an OS-seeded RNG: outside)
#[kani::proof]
#[kani::stub(rpki::repository::x509::Time::now, stub_now)]
#[kani::stub(rand_thread_rng, stub_rng)]
fn c14c_publish_next_no_jitter_u8() {
    check_publish_next(255);
}

// vk: tier=thorough; timeout=1800; bound=hours 0..=65535, now in a 2^20 s window, jitter 0
#[kani::proof]
#[kani::stub(rpki::repository::x509::Time::now, stub_now)]
#[kani::stub(rand_thread_rng, stub_rng)]
fn c14c_publish_next_no_jitter_u16() {
    check_publish_next(65535);
}

#[cfg(test)]
#[path = "/verif/.cache/playback/config.rs"]
mod playback;
