// Kani harnesses compiled as `mod verif_kani` inside /repo/src/server/mq.rs (cfg(kani) only).
