// Kani harnesses compiled as `mod verif_kani` inside /repo/src/server/ca/status.rs (cfg(kani) only).
