// Kani harnesses compiled as `mod verif_kani` inside /repo/src/api/ca.rs (cfg(kani) only).
//
// Kernels: Revocation::new, Revocations::{add, remove, remove_expired,
// apply_delta, to_crl_entries}, RevocationsDelta::{add, drop}, CertInfo::revocation,
// ChildStatus::{set_success, set_failure, set_suspended, child_state},
// ParentStatus/RepoStatus::{set_failure, set_last_updated, opt_failure}.
use super::*;
use crate::config::verif_kani::{advance_now, fixed_random_state, stub_now, sym_now, t0};

//------------ C03(a): the revocation list the CRL is built from --------------

fn any_expiry() -> Time {
    // anywhere in 0..2^21 s after T0: before, inside and after the `now` window
    let e: u32 = kani::any();
    kani::assume(e < (1 << 21));
    t0() + Duration::seconds(e as i64)
}

fn rev(serial: u64, expires: Time) -> Revocation {
    Revocation::new(Serial::from(serial), expires)
}

fn has_serial(list: &[Revocation], serial: u64) -> bool {
    let want = Serial::from(serial);
    let mut i = 0;
    while i < list.len() {
        if list[i].serial == want { return true; }
        i += 1;
    }
    false
}

/// Low byte of a serial (harness serials are small integers).
fn low(r: &Revocation) -> u8 { r.serial.into_array()[19] }

/// `remove_expired` drops exactly the entries whose object has expired
/// (expires <= now), returns exactly those, and keeps every unexpired
/// revocation, in order.
// vk: bound=2 entries (serials 1 and 2), expiry anywhere in a 2^21 s span around the 2^20 s now-window
#[kani::proof]
#[kani::unwind(4)]
#[kani::stub(rpki::repository::x509::Time::now, stub_now)]
fn c03a_remove_expired_exact() {
    let now = sym_now();
    let (e1, e2) = (any_expiry(), any_expiry());
    let mut revs = Revocations::default();
    revs.add(rev(1, e1));
    revs.add(rev(2, e2));
    let expired = revs.remove_expired();
    let live1 = e1 > now;
    let live2 = e2 > now;
    let n_live = live1 as usize + live2 as usize;
    assert!(revs.0.len() == n_live);
    assert!(expired.len() == 2 - n_live);
    // who is where
    if live1 {
        assert!(low(&revs.0[0]) == 1 && revs.0[0].expires == e1);
        if live2 { assert!(low(&revs.0[1]) == 2 && revs.0[1].expires == e2); }
    } else if live2 {
        assert!(low(&revs.0[0]) == 2 && revs.0[0].expires == e2);
    }
    if !live1 {
        assert!(low(&expired[0]) == 1);
        if !live2 { assert!(low(&expired[1]) == 2); }
    } else if !live2 {
        assert!(low(&expired[0]) == 2);
    }
    kani::cover!(live1 && !live2);
    kani::cover!(!live1 && live2);
    kani::cover!(live1 && live2);
    kani::cover!(!live1 && !live2);
    std::mem::forget((revs, expired));
}

/// Adding a revocation keeps the existing ones; the CRL entry list has one
/// entry per revocation with its serial and revocation date.
// vk: unwindset=memcmp.0:33; bound=2 entries
#[kani::proof]
#[kani::unwind(5)]
#[kani::stub(rpki::repository::x509::Time::now, stub_now)]
fn c03a_add_and_crl_entries() {
    let now = sym_now();
    let (s1, s2): (u64, u64) = (kani::any(), kani::any());
    let mut revs = Revocations::default();
    revs.add(rev(s1, any_expiry()));
    revs.add(rev(s2, any_expiry()));
    assert!(revs.0.len() == 2);
    assert!(revs.0[0].serial == Serial::from(s1) && revs.0[1].serial == Serial::from(s2));
    let crl = revs.to_crl_entries();
    assert!(crl.len() == 2);
    // CrlEntry has no accessors: compare with the expected entry bytewise
    // (20-byte serial + 12-byte time, no padding).
    let bytes = |e: CrlEntry| unsafe { std::mem::transmute::<CrlEntry, [u8; 32]>(e) };
    assert!(bytes(crl[0]) == bytes(CrlEntry::new(Serial::from(s1), now)));
    assert!(bytes(crl[1]) == bytes(CrlEntry::new(Serial::from(s2), now)));
    kani::cover!(s1 != s2);
    kani::cover!(s1 == s2);
    std::mem::forget((revs, crl));
}

/// `remove` takes away the named entry only.
// vk: unwindset=memcmp.0:21; bound=2 entries
#[kani::proof]
#[kani::unwind(5)]
#[kani::stub(rpki::repository::x509::Time::now, stub_now)]
fn c03a_remove_only_named() {
    let _now = sym_now();
    let (s1, s2): (u64, u64) = (kani::any(), kani::any());
    kani::assume(s1 != s2);
    let r1 = rev(s1, any_expiry());
    let r2 = rev(s2, any_expiry());
    let mut revs = Revocations::default();
    revs.add(r1);
    revs.add(r2);
    revs.remove(&r2);
    assert!(revs.0.len() == 1);
    assert!(revs.0[0] == r1);
    // removing something that is not there changes nothing
    revs.remove(&r2);
    assert!(revs.0.len() == 1 && revs.0[0] == r1);
    kani::cover!(r1.expires == r2.expires);
    kani::cover!(r1.expires != r2.expires);
    std::mem::forget(revs);
}

/// `apply_delta` (replay of a stored publication event): dropped entries go,
/// added ones come, everything else stays.
// vk: unwindset=memcmp.0:21; bound=1 existing entry, 1 added, 1 dropped
#[kani::proof]
#[kani::unwind(5)]
#[kani::stub(rpki::repository::x509::Time::now, stub_now)]
fn c03a_apply_delta() {
    let _now = sym_now();
    let (s1, s2, s3): (u64, u64, u64) = (kani::any(), kani::any(), kani::any());
    kani::assume(s1 != s2);
    let r1 = rev(s1, any_expiry());
    let r2 = rev(s2, any_expiry());
    let r3 = rev(s3, r1.expires);
    let mut revs = Revocations::default();
    revs.add(r1);
    let mut delta = RevocationsDelta::default();
    delta.add(r2);
    delta.drop(r3);
    revs.apply_delta(delta);
    assert!(has_serial(&revs.0, s2));
    assert!(has_serial(&revs.0, s1) == (r1 != r3));
    assert!(revs.0.len() == if r1 != r3 { 2 } else { 1 });
    kani::cover!(r1 == r3);
    kani::cover!(r1 != r3);
    std::mem::forget(revs);
}

//------------ C03(b): revocations carry the object's serial and expiry --------

#[kani::proof]
#[kani::stub(rpki::repository::x509::Time::now, stub_now)]
fn c03b_revocation_new() {
    let now = sym_now();
    let s: u64 = kani::any();
    let e = any_expiry();
    let r = Revocation::new(Serial::from(s), e);
    assert!(r.serial == Serial::from(s));
    assert!(r.expires == e);
    assert!(r.revocation_date == now);
    kani::cover!(e > now);
    kani::cover!(e <= now);
}

/// `CertInfo::revocation` (issued child certificates, received certificates):
/// the revocation names the certificate's own serial and expires with it.
/// Fixture: only `serial` and `validity` of the `CertInfo` are initialised
/// (the function reads nothing else; the rest is arbitrary for CBMC).
#[kani::proof]
#[kani::stub(rpki::repository::x509::Time::now, stub_now)]
fn c03b_certinfo_revoke() {
    let now = sym_now();
    let s: u64 = kani::any();
    let e = any_expiry();
    let mut slot = std::mem::MaybeUninit::<IssuedCertificate>::uninit();
    let p = slot.as_mut_ptr();
    unsafe {
        std::ptr::addr_of_mut!((*p).serial).write(Serial::from(s));
        std::ptr::addr_of_mut!((*p).validity).write(Validity::new(t0(), e));
    }
    let cert: &IssuedCertificate = unsafe { &*p };
    let r = cert.revocation();
    assert!(r.serial == Serial::from(s));
    assert!(r.expires == e);
    assert!(r.revocation_date == now);
    kani::cover!(s == 0);
    kani::cover!(s == u64::MAX);
}

//------------ C19: status records ---------------------------------------------

fn an_error() -> ErrorResponse {
    ErrorResponse {
        label: String::new(),
        msg: String::new(),
        args: HashMap::new(),
        delta_error: None,
    }
}

fn child_shows_failure(st: &ChildStatus) -> bool {
    match st.last_exchange.as_ref() {
        Some(e) => !e.result.was_success(),
        None => false,
    }
}

/// Child status after two exchanges at t1 < t2, each a success or a failure
/// (or a suspension in between): a failure is shown iff the LAST exchange
/// failed; last_success is the time of the last success and is not advanced
/// by a failure; any exchange clears `suspended`.
// vk: bound=2 outcomes (each success / failure / suspend), strictly increasing symbolic times in a 2^20 s window
#[kani::proof]
#[kani::unwind(4)]
#[kani::stub(rpki::repository::x509::Time::now, stub_now)]
#[kani::stub(std::hash::RandomState::new, fixed_random_state)]
fn c19a_child_status_two_outcomes() {
    let t1 = sym_now().timestamp();
    let mut st = ChildStatus::default();
    let op1: u8 = kani::any();
    let op2: u8 = kani::any();
    kani::assume(op1 < 3 && op2 < 3);
    match op1 {
        0 => st.set_success(None),
        1 => st.set_failure(None, an_error()),
        _ => st.set_suspended(),
    }
    let t2 = advance_now().timestamp();
    match op2 {
        0 => st.set_success(None),
        1 => st.set_failure(None, an_error()),
        _ => st.set_suspended(),
    }
    // expected record
    let last_exch = if op2 < 2 { Some((op2, t2)) } else if op1 < 2 { Some((op1, t1)) } else { None };
    let last_succ = if op2 == 0 { Some(t2) } else if op1 == 0 { Some(t1) } else { None };
    assert!(child_shows_failure(&st) == matches!(last_exch, Some((1, _))));
    match (&st.last_exchange, last_exch) {
        (None, None) => {}
        (Some(e), Some((op, t))) => {
            assert!(e.result.was_success() == (op == 0));
            assert!(e.timestamp == Timestamp::new(t));
        }
        _ => assert!(false),
    }
    assert!(st.last_success == last_succ.map(Timestamp::new));
    let suspended = op2 == 2;
    assert!((st.child_state() == ChildState::Suspended) == suspended);
    if suspended { assert!(st.suspended == Some(Timestamp::new(t2))); }
    kani::cover!(op1 == 0 && op2 == 1);
    kani::cover!(op1 == 1 && op2 == 0);
    kani::cover!(op1 == 2 && op2 == 1);
    kani::cover!(op1 == 0 && op2 == 2);
    std::mem::forget(st);
}

/// Three exchanges at t1 < t2 < t3 (success / failure / suspend each).
// vk: tier=thorough; timeout=2400; bound=3 outcomes (each success / failure / suspend), strictly increasing symbolic times
#[kani::proof]
#[kani::unwind(4)]
#[kani::stub(rpki::repository::x509::Time::now, stub_now)]
#[kani::stub(std::hash::RandomState::new, fixed_random_state)]
fn c19a_child_status_three_outcomes() {
    let mut st = ChildStatus::default();
    let ops: [u8; 3] = kani::any();
    kani::assume(ops[0] < 3 && ops[1] < 3 && ops[2] < 3);
    let mut times = [0i64; 3];
    let mut i = 0;
    while i < 3 {
        times[i] = if i == 0 { sym_now().timestamp() } else { advance_now().timestamp() };
        match ops[i] {
            0 => st.set_success(None),
            1 => st.set_failure(None, an_error()),
            _ => st.set_suspended(),
        }
        i += 1;
    }
    // expected record: last exchange = last op that is not a suspension
    let mut last_exch: Option<(u8, i64)> = None;
    let mut last_succ: Option<i64> = None;
    let mut suspended: Option<i64> = None;
    let mut j = 0;
    while j < 3 {
        if ops[j] < 2 { last_exch = Some((ops[j], times[j])); suspended = None; }
        if ops[j] == 0 { last_succ = Some(times[j]); }
        if ops[j] == 2 { suspended = Some(times[j]); }
        j += 1;
    }
    assert!(child_shows_failure(&st) == matches!(last_exch, Some((1, _))));
    match (&st.last_exchange, last_exch) {
        (None, None) => {}
        (Some(e), Some((op, t))) => {
            assert!(e.result.was_success() == (op == 0));
            assert!(e.timestamp == Timestamp::new(t));
        }
        _ => { assert!(false); }
    }
    assert!(st.last_success == last_succ.map(Timestamp::new));
    assert!(st.suspended == suspended.map(Timestamp::new));
    kani::cover!(ops[0] == 0 && ops[1] == 2 && ops[2] == 1);
    kani::cover!(ops[0] == 1 && ops[1] == 0 && ops[2] == 1);
    std::mem::forget(st);
}

fn http() -> ServiceUri { ServiceUri::Http(String::new()) }

fn exch_failed(e: &Option<ParentExchange>) -> bool {
    match e.as_ref() {
        Some(e) => !e.result.was_success(),
        None => false,
    }
}

/// Repository status: same rule; a failure does not touch last_success.
// vk: bound=2 outcomes (success / failure), increasing symbolic times, empty published list, ServiceUri::Http
#[kani::proof]
#[kani::unwind(4)]
#[kani::stub(rpki::repository::x509::Time::now, stub_now)]
#[kani::stub(std::hash::RandomState::new, fixed_random_state)]
fn c19b_repo_status_two_outcomes() {
    let t1 = sym_now().timestamp();
    let mut st = RepoStatus::default();
    let ok1: bool = kani::any();
    let ok2: bool = kani::any();
    if ok1 { st.set_last_updated(http()) } else { st.set_failure(http(), an_error()) }
    let t2 = advance_now().timestamp();
    if ok2 { st.set_last_updated(http()) } else { st.set_failure(http(), an_error()) }
    assert!(exch_failed(&st.last_exchange) == !ok2);
    assert!(st.last_exchange.as_ref().map(|e| e.timestamp) == Some(Timestamp::new(t2)));
    let want = if ok2 { Some(t2) } else if ok1 { Some(t1) } else { None };
    assert!(st.last_success == want.map(Timestamp::new));
    assert!(st.published.is_empty());
    kani::cover!(ok1 && !ok2);
    kani::cover!(!ok1 && ok2);
    std::mem::forget(st);
}

/// Parent status: same rule; a failure erases neither the last success time
/// nor the entitlements last received.
// vk: bound=2 outcomes (success / failure), increasing symbolic times, empty entitlement list, ServiceUri::Http
#[kani::proof]
#[kani::unwind(4)]
#[kani::stub(rpki::repository::x509::Time::now, stub_now)]
#[kani::stub(std::hash::RandomState::new, fixed_random_state)]
fn c19b_parent_status_two_outcomes() {
    let t1 = sym_now().timestamp();
    let mut st = ParentStatus::default();
    let ok1: bool = kani::any();
    let ok2: bool = kani::any();
    if ok1 { st.set_last_updated(http()) } else { st.set_failure(http(), an_error()) }
    let t2 = advance_now().timestamp();
    if ok2 { st.set_last_updated(http()) } else { st.set_failure(http(), an_error()) }
    assert!(exch_failed(&st.last_exchange) == !ok2);
    assert!(st.last_exchange.as_ref().map(|e| e.timestamp) == Some(Timestamp::new(t2)));
    let want = if ok2 { Some(t2) } else if ok1 { Some(t1) } else { None };
    assert!(st.last_success == want.map(Timestamp::new));
    assert!(st.classes.is_empty());
    kani::cover!(ok1 && !ok2);
    kani::cover!(!ok1 && ok2);
    std::mem::forget(st);
}

//------------ C19(c): the list of published objects follows the deltas ---------

fn b64(s: &'static str) -> Base64 {
    // Base64 is a newtype around Arc<str> without a cheap public constructor
    unsafe { std::mem::transmute::<Arc<str>, Base64>(Arc::from(s)) }
}

fn rsync(s: &'static str) -> uri::Rsync {
    match uri::Rsync::from_str(s) {
        Ok(u) => u,
        Err(_) => { kani::assume(false); unreachable!() }
    }
}

fn count_uri(list: &[PublishedFile], u: &uri::Rsync) -> usize {
    let mut n = 0;
    let mut i = 0;
    while i < list.len() {
        if list[i].uri == *u { n += 1; }
        i += 1;
    }
    n
}

/// After a successful exchange the published list equals the old list with
/// the delta applied: an update REPLACES the entry for its URI (exactly one
/// entry, new content), a withdraw removes it, a publish adds one; other
/// entries are untouched; the exchange is recorded as a success.
// vk: tier=thorough; timeout=2400; unwindset=memcmp.0:24,_RINvXs2J_NtNtCs8xvirJzNMvV_4core5slice4iterINtB7_4IterhENtNtNtNtBb_4iter6traits8iterator8Iterator3allNCINvNtCs5flY6c0xCET_4rpki3uri15check_uri_asciiRNtNtCslvDcKK9bh8L_5bytes5bytes5BytesE0EB1I_.0:24,_RNvMNtNtCs8xvirJzNMvV_4core5slice5asciiSh27eq_ignore_ascii_case_simpleCs9e5IdDHK8rB_5krill.0:24,_RINvNvMNtNtCs8xvirJzNMvV_4core5slice5asciiSh27eq_ignore_ascii_case_chunks21eq_ignore_ascii_innerKj10_ECs9e5IdDHK8rB_5krill.0:24,_RINvMNtNtCs8xvirJzNMvV_4core5slice5asciiSh27eq_ignore_ascii_case_chunksKj10_ECs1TccL4rMDcR_6chrono.0:24; bound=2 existing files (concrete URIs rsync://h/m/a and /b), one delta element chosen symbolically among update(a) / withdraw(a) / publish(c)
#[kani::proof]
#[kani::unwind(5)]
#[kani::stub(rpki::repository::x509::Time::now, stub_now)]
fn x19c_repo_published_follows_delta() {
    let now = sym_now().timestamp();
    let (ua, ub, uc) = (rsync("rsync://h/m/a"), rsync("rsync://h/m/b"), rsync("rsync://h/m/c"));
    let mut st = RepoStatus::default();
    st.published.push(PublishedFile { uri: ua.clone(), base64: b64("QQ==") });
    st.published.push(PublishedFile { uri: ub.clone(), base64: b64("Qg==") });
    let op: u8 = kani::any();
    kani::assume(op < 3);
    let mut delta = PublishDelta::empty();
    let h = Hash::from([0u8; 32]);
    match op {
        0 => delta.add_update(rpki::ca::publication::Update::new(None, ua.clone(), b64("Qw=="), h)),
        1 => delta.add_withdraw(rpki::ca::publication::Withdraw::new(None, ua.clone(), h)),
        _ => delta.add_publish(rpki::ca::publication::Publish::new(None, uc.clone(), b64("Qw=="))),
    }
    st.update_published(http(), delta);
    assert!(count_uri(&st.published, &ub) == 1);
    match op {
        0 => {
            assert!(st.published.len() == 2);
            assert!(count_uri(&st.published, &ua) == 1);
            let mut i = 0;
            while i < st.published.len() {
                if st.published[i].uri == ua { assert!(st.published[i].base64.as_str().as_bytes()[1] == b'w'); }
                i += 1;
            }
        }
        1 => {
            assert!(st.published.len() == 1);
            assert!(count_uri(&st.published, &ua) == 0);
        }
        _ => {
            assert!(st.published.len() == 3);
            assert!(count_uri(&st.published, &ua) == 1 && count_uri(&st.published, &uc) == 1);
        }
    }
    assert!(!exch_failed(&st.last_exchange));
    assert!(st.last_success == Some(Timestamp::new(now)));
    kani::cover!(op == 0);
    kani::cover!(op == 1);
    kani::cover!(op == 2);
    std::mem::forget((st, ua, ub, uc));
}

//------------ C19(c) on laid-out fixtures -------------------------------------

use crate::verif_fix::{base64_sym, letter_of, rsync_hm};

fn file_uri(i: u8) -> uri::Rsync {
    match i {
        0 => rsync_hm("rsync://h/m/a/x"),
        1 => rsync_hm("rsync://h/m/a/y"),
        _ => rsync_hm("rsync://h/m/a/z"),
    }
}

fn count_file(list: &[PublishedFile], i: u8) -> usize {
    let u = file_uri(i);
    let mut n = 0;
    let mut k = 0;
    while k < list.len() {
        if list[k].uri == u { n += 1; }
        k += 1;
    }
    std::mem::forget(u);
    n
}

/// After a successful publication exchange the list of published objects the
/// status shows equals the old list with the delta applied: an update
/// REPLACES the entry for its URI (exactly one entry, the new content), a
/// withdraw removes it, a publish adds one; the other entry is untouched; the
/// exchange is recorded as a success at the time of the exchange.
/// `OP`: 0 update x, 1 withdraw x, 2 publish z; the list holds x and y.
fn repo_published_follows_delta<const OP: u8>() {
    let now = sym_now().timestamp();
    let (cx, cy, cn) = ({ let c: u8 = kani::any(); kani::assume(c < 16); c }, { let c: u8 = kani::any(); kani::assume(c < 16); c }, { let c: u8 = kani::any(); kani::assume(c < 16); c });
    let mut st = RepoStatus::default();
    st.published.push(PublishedFile { uri: file_uri(0), base64: base64_sym(cx) });
    st.published.push(PublishedFile { uri: file_uri(1), base64: base64_sym(cy) });
    let mut delta = PublishDelta::empty();
    let h = Hash::from([0u8; 32]);
    match OP {
        0 => delta.add_update(rpki::ca::publication::Update::new(None, file_uri(0), base64_sym(cn), h)),
        1 => delta.add_withdraw(rpki::ca::publication::Withdraw::new(None, file_uri(0), h)),
        _ => delta.add_publish(rpki::ca::publication::Publish::new(None, file_uri(2), base64_sym(cn))),
    }
    st.update_published(http(), delta);
    // y is untouched
    assert!(count_file(&st.published, 1) == 1);
    match OP {
        0 => {
            assert!(st.published.len() == 2);
            assert!(count_file(&st.published, 0) == 1);
            let u = file_uri(0);
            let mut i = 0;
            while i < st.published.len() {
                if st.published[i].uri == u { assert!(letter_of(&st.published[i].base64) == b'A' + cn); }
                i += 1;
            }
            std::mem::forget(u);
        }
        1 => {
            assert!(st.published.len() == 1);
            assert!(count_file(&st.published, 0) == 0);
        }
        _ => {
            assert!(st.published.len() == 3);
            assert!(count_file(&st.published, 0) == 1 && count_file(&st.published, 2) == 1);
        }
    }
    assert!(!exch_failed(&st.last_exchange));
    assert!(st.last_success == Some(Timestamp::new(now)));
    kani::cover!(cn != cx);
    std::mem::forget(st);
}

// vk: timeout=600; unwindset=memcmp.0:20; flags=--no-assertion-reach-checks; bound=2 published files (x, y) with arbitrary contents (16 letters), delta = one update element; laid-out URI/content fixtures (harness/kani_fix.rs); <[u8]>::eq_ignore_ascii_case loop-free model
#[kani::proof]
#[kani::unwind(5)]
#[kani::stub(rpki::repository::x509::Time::now, stub_now)]
#[kani::stub(<[u8]>::eq_ignore_ascii_case, crate::verif_fix::eq_ignore_ascii_case_16)]
fn c19c_repo_published_follows_update() { repo_published_follows_delta::<0>(); }

// vk: tier=thorough; timeout=600; unwindset=memcmp.0:20; flags=--no-assertion-reach-checks; bound=2 published files (x, y) with arbitrary contents (16 letters), delta = one withdraw element; laid-out URI/content fixtures (harness/kani_fix.rs); <[u8]>::eq_ignore_ascii_case loop-free model
#[kani::proof]
#[kani::unwind(5)]
#[kani::stub(rpki::repository::x509::Time::now, stub_now)]
#[kani::stub(<[u8]>::eq_ignore_ascii_case, crate::verif_fix::eq_ignore_ascii_case_16)]
fn c19c_repo_published_follows_withdraw() { repo_published_follows_delta::<1>(); }

// vk: tier=thorough; timeout=600; unwindset=memcmp.0:20; flags=--no-assertion-reach-checks; bound=2 published files (x, y) with arbitrary contents (16 letters), delta = one publish element; laid-out URI/content fixtures (harness/kani_fix.rs); <[u8]>::eq_ignore_ascii_case loop-free model
#[kani::proof]
#[kani::unwind(5)]
#[kani::stub(rpki::repository::x509::Time::now, stub_now)]
#[kani::stub(<[u8]>::eq_ignore_ascii_case, crate::verif_fix::eq_ignore_ascii_case_16)]
fn c19c_repo_published_follows_publish() { repo_published_follows_delta::<2>(); }

#[cfg(test)]
#[path = "/verif/.cache/playback/api_ca.rs"]
mod playback;
