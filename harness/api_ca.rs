// Kani harnesses compiled as `mod verif_kani` inside /repo/src/api/ca.rs (cfg(kani) only).
