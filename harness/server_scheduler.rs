// Kani harnesses compiled as `mod verif_kani` inside /repo/src/server/scheduler.rs (cfg(kani) only).
