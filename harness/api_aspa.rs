// Kani harnesses compiled as `mod verif_kani` inside /repo/src/api/aspa.rs (cfg(kani) only).
//
// Kernels: AspaDefinition::{customer_used_as_provider,
// contains_duplicate_providers, apply_update}.
use super::*;

fn asn(v: u32) -> Asn { Asn::from_u32(v) }

fn def3(c: u32, p: [u32; 3]) -> AspaDefinition {
    AspaDefinition { customer: asn(c), providers: vec![asn(p[0]), asn(p[1]), asn(p[2])] }
}

/// The two malformed-provider-list guards, for every customer and every list
/// of exactly three providers: "customer listed as its own provider" iff the
/// customer is in the list; "duplicated provider" iff two positions are equal.
// vk: bound=exactly 3 providers (symbolic-length lists did not finish), all 32-bit AS numbers
#[kani::proof]
#[kani::unwind(6)]
fn c05c_aspa_guards_3_providers() {
    let c: u32 = kani::any();
    let p: [u32; 3] = kani::any();
    let d = def3(c, p);
    let used = p[0] == c || p[1] == c || p[2] == c;
    let dup = p[0] == p[1] || p[0] == p[2] || p[1] == p[2];
    assert!(d.customer_used_as_provider() == used);
    assert!(d.contains_duplicate_providers() == dup);
    // the guards do not modify the definition
    assert!(d.providers.len() == 3 && d.providers[0] == asn(p[0]) && d.providers[2] == asn(p[2]));
    kani::cover!(used && !dup);
    kani::cover!(!used && dup);
    kani::cover!(!used && !dup);
    kani::cover!(p[0] == p[2] && p[0] != p[1]);
    std::mem::forget(d);
}

// vk: tier=thorough; timeout=1800; bound=exactly 4 providers, all 32-bit AS numbers
#[kani::proof]
#[kani::unwind(7)]
fn c05c_aspa_guards_4_providers() {
    let c: u32 = kani::any();
    let p: [u32; 4] = kani::any();
    let d = AspaDefinition { customer: asn(c), providers: vec![asn(p[0]), asn(p[1]), asn(p[2]), asn(p[3])] };
    let used = p[0] == c || p[1] == c || p[2] == c || p[3] == c;
    let dup = p[0] == p[1] || p[0] == p[2] || p[0] == p[3] || p[1] == p[2] || p[1] == p[3] || p[2] == p[3];
    assert!(d.customer_used_as_provider() == used);
    assert!(d.contains_duplicate_providers() == dup);
    kani::cover!(used && !dup);
    kani::cover!(p[0] == p[3] && p[0] != p[1] && p[1] != p[2] && p[0] != p[2]);
    kani::cover!(!used && !dup);
    std::mem::forget(d);
}

// vk: bound=exactly 2 providers and exactly 1 provider
#[kani::proof]
#[kani::unwind(5)]
fn c05c_aspa_guards_1_2_providers() {
    let c: u32 = kani::any();
    let p: [u32; 2] = kani::any();
    let d2 = AspaDefinition { customer: asn(c), providers: vec![asn(p[0]), asn(p[1])] };
    assert!(d2.customer_used_as_provider() == (p[0] == c || p[1] == c));
    assert!(d2.contains_duplicate_providers() == (p[0] == p[1]));
    let d1 = AspaDefinition { customer: asn(c), providers: vec![asn(p[0])] };
    assert!(d1.customer_used_as_provider() == (p[0] == c));
    assert!(!d1.contains_duplicate_providers());
    let d0 = AspaDefinition { customer: asn(c), providers: Vec::new() };
    assert!(!d0.customer_used_as_provider() && !d0.contains_duplicate_providers());
    kani::cover!(p[0] == p[1]);
    kani::cover!(p[1] == c && p[0] != c);
    std::mem::forget((d2, d1, d0));
}

#[cfg(test)]
#[path = "/verif/.cache/playback/api_aspa.rs"]
mod playback;
