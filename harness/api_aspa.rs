// Kani harnesses compiled as `mod verif_kani` inside /repo/src/api/aspa.rs (cfg(kani) only).
