// Kani harnesses compiled as `mod verif_kani` inside /repo/src/server/ca/aspa.rs (cfg(kani) only).
//
// Kernel: AspaDefinitions::process_updates (+ add_or_replace, get, has, remove).
use super::*;
use rpki::ca::idexchange::ParentHandle;
use crate::api::roa::RoaPayloadJsonMapKey;
use rpki::repository::resources::{AsBlock, AsBlocks, Asn, Ipv4Blocks, Ipv6Blocks};

fn asn(v: u32) -> Asn { Asn::from_u32(v) }

/// Resources holding exactly the AS range lo..=hi.
fn held(lo: u32, hi: u32) -> ResourceSet {
    let blocks: AsBlocks = [AsBlock::from((asn(lo), asn(hi)))].into_iter().collect();
    ResourceSet::new(blocks, Ipv4Blocks::empty(), Ipv6Blocks::empty())
}

fn ca() -> CaHandle { CaHandle::new("ca".into()) }

/// One add-or-replace entry with two providers against a configuration with
/// zero or one existing definition (possibly for the same customer) and held
/// resources lo..=hi: the update is refused exactly when the customer is
/// listed as its own provider, the providers are duplicated, or the customer
/// AS is not held - whether the definition is new or replaces an existing
/// one; when accepted the new configuration holds exactly the new definition
/// for that customer (and still the other existing one), and one event is
/// emitted; the original configuration is never touched.
// vk: tier=thorough; timeout=2400; flags=--no-assertion-reach-checks --no-memory-safety-checks; bound=1 existing definition (1 provider), 1 add-or-replace entry for the SAME customer with exactly 2 providers, all AS numbers 32-bit symbolic, held = one arbitrary AS range; model map (harness/kani_map.rs)
#[kani::proof]
#[kani::unwind(3)]
fn c05e_aspa_replace_refused_iff_invalid() {
    let (lo, hi): (u32, u32) = (kani::any(), kani::any());
    kani::assume(lo <= hi);
    let resources = held(lo, hi);
    let have = true;   // the shape is concrete: one existing definition
    let (c0, q0): (u32, u32) = (kani::any(), kani::any());
    let mut defs = AspaDefinitions::default();
    if have {
        defs.add_or_replace(AspaDefinition { customer: asn(c0), providers: vec![asn(q0)] });
    }
    // the entry REPLACES the existing definition: same customer (a new
    // customer is what c05e_aspa_empty_add decides)
    let c = c0;
    let (p0, p1): (u32, u32) = (kani::any(), kani::any());
    let updates = AspaDefinitionUpdates {
        add_or_replace: vec![AspaDefinition { customer: asn(c), providers: vec![asn(p0), asn(p1)] }],
        remove: Vec::new(),
    };
    let res = defs.process_updates(&ca(), &resources, updates);
    let must_refuse = p0 == c || p1 == c || p0 == p1 || !(lo <= c && c <= hi);
    match &res {
        Err(_) => assert!(must_refuse),
        Ok((new, events)) => {
            assert!(!must_refuse);
            match new.get(asn(c)) {
                Some(d) => assert!(d.providers.len() == 2 && d.providers[0] == asn(p0) && d.providers[1] == asn(p1)),
                None => assert!(false),
            }
            if have && c0 != c { assert!(new.has(asn(c0))); }
            assert!(events.len() <= 1);
            if !have || c0 != c { assert!(events.len() == 1); }
        }
    }
    // the configuration the update was computed from is unchanged
    assert!(defs.has(asn(c0)) == have);
    if !(have && c0 == c) { assert!(!defs.has(asn(c)) || (have && c0 == c)); }
    kani::cover!(res.is_ok() && c0 == c);
    kani::cover!(res.is_err() && c0 == c && !(lo <= c && c <= hi));
    std::mem::forget((res, defs, resources));
}

/// An entry with an empty provider list and the removal of an unknown
/// customer are refused; the removal of a known one is accepted and removes
/// exactly it.
// vk: tier=thorough; timeout=2400; flags=--no-assertion-reach-checks --no-memory-safety-checks; bound=1 existing definition, either 1 removal or 1 entry with no providers; model map (harness/kani_map.rs)
#[kani::proof]
#[kani::unwind(5)]
fn x05e_aspa_remove_and_empty() {
    let resources = held(0, u32::MAX);
    let (c0, q0, r): (u32, u32, u32) = (kani::any(), kani::any(), kani::any());
    let mut defs = AspaDefinitions::default();
    defs.add_or_replace(AspaDefinition { customer: asn(c0), providers: vec![asn(q0)] });
    let removal: bool = kani::any();
    let updates = if removal {
        AspaDefinitionUpdates { add_or_replace: Vec::new(), remove: vec![asn(r)] }
    } else {
        AspaDefinitionUpdates {
            add_or_replace: vec![AspaDefinition { customer: asn(r), providers: Vec::new() }],
            remove: Vec::new(),
        }
    };
    let res = defs.process_updates(&ca(), &resources, updates);
    match &res {
        Err(_) => assert!(!removal || r != c0),
        Ok((new, events)) => {
            assert!(removal && r == c0);
            assert!(!new.has(asn(c0)));
            assert!(events.len() == 1);
        }
    }
    assert!(defs.has(asn(c0)));
    kani::cover!(res.is_ok());
    kani::cover!(res.is_err() && removal);
    kani::cover!(res.is_err() && !removal);
    std::mem::forget((res, defs, resources));
}

/// One add-or-replace entry with two providers against an EMPTY
/// configuration, for a CA holding one arbitrary AS range: refused exactly
/// when the customer is one of its own providers, the providers are
/// duplicated, or the customer AS is not held; when accepted the new
/// configuration holds exactly that definition and one event is emitted.
/// (One existing definition plus one entry - the replace path - ran out of
/// memory; kept disabled as `x05e_*` above.)
// vk: timeout=900; flags=--no-assertion-reach-checks --no-memory-safety-checks; bound=empty configuration, 1 add-or-replace entry with exactly 2 providers, all AS numbers 32-bit symbolic, held = one arbitrary AS range; model map (harness/kani_map.rs)
#[kani::proof]
#[kani::unwind(5)]
fn c05e_aspa_empty_add() {
    let (lo, hi): (u32, u32) = (kani::any(), kani::any());
    kani::assume(lo <= hi);
    let resources = held(lo, hi);
    let defs = AspaDefinitions::default();
    let (c, p0, p1): (u32, u32, u32) = (kani::any(), kani::any(), kani::any());
    let updates = AspaDefinitionUpdates {
        add_or_replace: vec![AspaDefinition { customer: asn(c), providers: vec![asn(p0), asn(p1)] }],
        remove: Vec::new(),
    };
    let res = defs.process_updates(&ca(), &resources, updates);
    let must_refuse = p0 == c || p1 == c || p0 == p1 || !(lo <= c && c <= hi);
    assert!(res.is_err() == must_refuse);
    match &res {
        Ok((new, events)) => {
            assert!(events.len() == 1);
            match new.get(asn(c)) {
                Some(d) => assert!(d.providers.len() == 2),
                None => assert!(false),
            }
        }
        Err(_) => {}
    }
    assert!(!defs.has(asn(c)));
    kani::cover!(res.is_ok());
    kani::cover!(res.is_err() && lo <= c && c <= hi);
    std::mem::forget((res, defs, resources));
}


fn has_asn(v: &[Asn], x: u32) -> bool {
    let mut i = 0;
    while i < v.len() {
        if v[i] == asn(x) { return true; }
        i += 1;
    }
    false
}

/// What is applied is what was accepted: `process_updates` returns the new
/// configuration (from which the ASPA objects are derived) AND the events
/// that are stored and replayed to rebuild the configuration
/// (`CertAuth::apply`: Removed -> `remove`, Added -> `add_or_replace`,
/// Updated -> `apply_update`, which starts from an EMPTY provider list when
/// the customer has no definition).  For a delta that removes customer c0 and
/// add-or-replaces c0 with providers {p0, p1}, the events must therefore
/// rebuild exactly {p0, p1}: after the removal event, either an Added event
/// carrying both providers, or an Updated event whose `added` list holds both.
/// Otherwise the stored configuration and the published objects disagree.
// vk: tier=thorough; timeout=1500; flags=--no-assertion-reach-checks --no-memory-safety-checks; bound=1 existing definition (1 provider), delta = removal of that customer + 1 add-or-replace entry for it with exactly 2 valid providers, all AS numbers 32-bit symbolic, everything held; model map (harness/kani_map.rs)
#[kani::proof]
#[kani::unwind(3)]
fn c05g_aspa_events_reproduce_configuration() {
    let resources = held(0, u32::MAX);
    let (c0, q0): (u32, u32) = (kani::any(), kani::any());
    let mut defs = AspaDefinitions::default();
    defs.add_or_replace(AspaDefinition { customer: asn(c0), providers: vec![asn(q0)] });
    let (p0, p1): (u32, u32) = (kani::any(), kani::any());
    kani::assume(p0 != c0 && p1 != c0 && p0 != p1);
    let updates = AspaDefinitionUpdates {
        add_or_replace: vec![AspaDefinition { customer: asn(c0), providers: vec![asn(p0), asn(p1)] }],
        remove: vec![asn(c0)],
    };
    let res = defs.process_updates(&ca(), &resources, updates);
    match &res {
        Err(_) => assert!(false),   // every entry of the delta is valid
        Ok((new, events)) => {
            match new.get(asn(c0)) {
                Some(d) => assert!(d.providers.len() == 2 && has_asn(&d.providers, p0) && has_asn(&d.providers, p1)),
                None => assert!(false),
            }
            assert!(events.len() == 2);
            match &events[0] {
                CertAuthEvent::AspaConfigRemoved { customer } => assert!(*customer == asn(c0)),
                _ => assert!(false),
            }
            let rebuilt_both = match &events[1] {
                CertAuthEvent::AspaConfigAdded { aspa_config } =>
                    aspa_config.customer == asn(c0) && has_asn(&aspa_config.providers, p0) && has_asn(&aspa_config.providers, p1),
                CertAuthEvent::AspaConfigUpdated { customer, update } =>
                    *customer == asn(c0) && has_asn(&update.added, p0) && has_asn(&update.added, p1),
                _ => false,
            };
            assert!(rebuilt_both);
        }
    }
    kani::cover!(res.is_ok() && q0 == p0);
    kani::cover!(res.is_ok() && q0 != p0 && q0 != p1);
    std::mem::forget((res, defs, resources));
}

#[cfg(test)]
#[path = "/verif/.cache/playback/server_ca_aspa.rs"]
mod playback;
