// Kani harnesses compiled as `mod verif_kani` inside /repo/src/server/ca/aspa.rs (cfg(kani) only).
