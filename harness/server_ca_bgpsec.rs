// Kani harnesses compiled as `mod verif_kani` inside /repo/src/server/ca/bgpsec.rs (cfg(kani) only).
