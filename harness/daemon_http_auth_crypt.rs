// Kani harnesses compiled as `mod verif_kani` inside /repo/src/daemon/http/auth/crypt.rs (cfg(kani) only).
