// Kani harnesses compiled as `mod verif_kani` inside /repo/src/server/ca/roa.rs (cfg(kani) only).
//
// Kernel: RoaAggregateKey::from_str (object names / stored keys "AS<n>[-<group>]").
use super::*;
use crate::api::roa::verif_kani::any_ascii;

fn check_agg<const N: usize>() {
    let (buf, len) = any_ascii::<N>();
    let Ok(s) = std::str::from_utf8(&buf[..len]) else { return };
    let r = RoaAggregateKey::from_str(s);
    if r.is_ok() {
        assert!(len >= 3 && buf[0] == b'A' && buf[1] == b'S');
    }
    kani::cover!(r.is_ok());
    kani::cover!(r.is_err() && len >= 2 && buf[0] == b'A' && buf[1] == b'S');
    std::mem::forget(r);
}

/// No panic (in particular no out-of-range `[2..]` slice) for every string of
/// up to 4 (quick) / 6 (thorough) ASCII bytes; accepted strings start with "AS" + at least one char.
// vk: timeout=900; bound=0..=4 ASCII bytes
#[kani::proof]
#[kani::unwind(6)]
fn c16c_aggregate_key_from_str_4() {
    check_agg::<4>();
}

// vk: tier=thorough; timeout=2400; bound=0..=6 ASCII bytes
#[kani::proof]
#[kani::unwind(8)]
fn c16c_aggregate_key_from_str_6() {
    check_agg::<6>();
}

#[cfg(test)]
#[path = "/verif/.cache/playback/server_ca_roa.rs"]
mod playback;
