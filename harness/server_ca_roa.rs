// Kani harnesses compiled as `mod verif_kani` inside /repo/src/server/ca/roa.rs (cfg(kani) only).
