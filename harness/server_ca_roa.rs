// Kani harnesses compiled as `mod verif_kani` inside /repo/src/server/ca/roa.rs (cfg(kani) only).
//
// Kernel: RoaAggregateKey::from_str (object names / stored keys "AS<n>[-<group>]").
use super::*;
use crate::api::roa::verif_kani::any_ascii;

fn check_agg<const N: usize>() {
    let (buf, len) = any_ascii::<N>();
    let Ok(s) = std::str::from_utf8(&buf[..len]) else { return };
    let r = RoaAggregateKey::from_str(s);
    if r.is_ok() {
        assert!(len >= 3 && buf[0] == b'A' && buf[1] == b'S');
    }
    kani::cover!(r.is_ok());
    kani::cover!(r.is_err() && len >= 2 && buf[0] == b'A' && buf[1] == b'S');
    std::mem::forget(r);
}

/// No panic (in particular no out-of-range `[2..]` slice) for every string of
/// up to 4 (quick) / 6 (thorough) ASCII bytes; accepted strings start with "AS" + at least one char.
// vk: timeout=900; bound=0..=4 ASCII bytes
#[kani::proof]
#[kani::unwind(6)]
fn c16c_aggregate_key_from_str_4() {
    check_agg::<4>();
}

// vk: tier=thorough; timeout=2400; bound=0..=6 ASCII bytes
#[kani::proof]
#[kani::unwind(8)]
fn c16c_aggregate_key_from_str_6() {
    check_agg::<6>();
}


//------------ C05(f): Routes::process_updates -----------------------------------
//
// The map inside `Routes` is the association-list model (harness/kani_map.rs).
use crate::api::roa::verif_kani::{any_payload_v4, any_payload_v6, any_v4, spec_held_v4, spec_len_valid};
use crate::api::roa::TypedPrefix;
use crate::config::verif_kani::stub_now;

fn key(p: RoaPayload) -> RoaPayloadJsonMapKey { RoaPayloadJsonMapKey::from(p) }

/// The prefix the CA of the harness holds.  `RoaPayload::held_by` is replaced
/// by its bit-level specification for a CA holding exactly this one IPv4
/// prefix; `c05b_held_by_v4` shows, for every payload and every held prefix,
/// that the real `held_by` on the `ResourceSet` built from that prefix returns
/// exactly this value (the real function walks rpki's IP block chains, which
/// together with the map code exceeded the memory cap).
static mut HELD: Option<crate::api::roa::Ipv4Prefix> = None;

fn hold(p: crate::api::roa::Ipv4Prefix) { unsafe { HELD = Some(p); } }

pub(crate) fn stub_held_by(p: RoaPayload, _resources: &ResourceSet) -> bool {
    match unsafe { HELD } {
        Some(h) => spec_held_v4(h, &p),
        None => false,
    }
}

/// A comment: absent (`CM` false) or a one-letter text whose letter is
/// chosen by the solver (the allocation is concrete, only the letter varies).
fn comment<const CM: bool>() -> (u8, Option<String>) {
    if CM {
        let k: u8 = kani::any();
        kani::assume(k == b'x' || k == b'y');
        (k, Some(unsafe { String::from_utf8_unchecked(vec![k]) }))
    } else {
        (0, None)
    }
}

/// A ROA delta against a configuration of zero or one authorisation, for a
/// CA holding one arbitrary IPv4 prefix.  The *shape* (is there an existing
/// entry, a removal, one or two additions) is fixed per harness so that the
/// control flow of the set-up is concrete; every payload, max length, origin
/// and comment is symbolic.  The delta is refused exactly when the removal
/// names an authorisation that is not present, or an addition has an invalid
/// maximum length, or a prefix that is not held, or is already present
/// (after the removal and the earlier additions of the same delta) with the
/// same comment.  When accepted the new configuration is exactly (old minus
/// removed) plus added; when refused nothing is returned that could be
/// applied (all or nothing); in both cases the configuration the delta was
/// computed from is unchanged.
fn roa_delta<const HAVE: bool, const REM: bool, const ADDS: usize, const CM: bool>() {
    let held = any_v4();
    hold(held);
    // not read under the engine (held_by is the stub above); a native replay
    // runs the real held_by and gets the real set
    #[cfg(not(test))]
    let resources = ResourceSet::default();
    #[cfg(test)]
    let resources: ResourceSet = TypedPrefix::V4(held).into();
    let e0 = any_payload_v4();
    let (e0_k, e0_comment) = comment::<CM>();
    let mut routes = Routes::default();
    if HAVE {
        routes.add(key(e0));
        if CM { routes.update_comment(&key(e0), e0_comment); }
    }
    let r = any_payload_v4();
    let a = any_payload_v4();
    let (ak, acomment) = comment::<CM>();
    let b = any_payload_v4();
    let (bk, bcomment) = comment::<CM>();
    let mut added = Vec::new();
    if ADDS >= 1 { added.push(RoaConfiguration { payload: a, comment: acomment }); }
    if ADDS >= 2 { added.push(RoaConfiguration { payload: b, comment: bcomment }); }
    let updates = RoaConfigurationUpdates { added, removed: if REM { vec![r] } else { Vec::new() } };
    let ca = CaHandle::new("ca".into());
    let res = routes.process_updates(&ca, &resources, &updates);

    // --- specification: a list of (payload, comment kind) pairs
    let rem_ok = !REM || (HAVE && r == e0);
    let e0_left = HAVE && !(REM && r == e0);
    // first addition
    let a_same_as_e0 = e0_left && a == e0;
    let a_dup = a_same_as_e0 && ak == e0_k;
    let a_ok = ADDS < 1 || (spec_len_valid(&a) && spec_held_v4(held, &a) && !a_dup);
    let a_inserted = ADDS >= 1 && spec_len_valid(&a) && spec_held_v4(held, &a) && !a_same_as_e0;
    // second addition sees the first one if that was inserted
    let b_same_as_e0 = e0_left && b == e0;
    let b_same_as_a = a_inserted && b == a;
    let b_dup = (b_same_as_e0 && bk == e0_k) || (b_same_as_a && bk == ak);
    let b_ok = ADDS < 2 || (spec_len_valid(&b) && spec_held_v4(held, &b) && !b_dup);
    let b_inserted = ADDS >= 2 && spec_len_valid(&b) && spec_held_v4(held, &b) && !b_same_as_e0 && !b_same_as_a;
    let accept = rem_ok && a_ok && b_ok;
    match &res {
        Err(_) => assert!(!accept),
        Ok((new, _events)) => {
            assert!(accept);
            assert!(new.len() == (e0_left as usize) + (a_inserted as usize) + (b_inserted as usize));
            if e0_left { assert!(new.has(&key(e0))); }
            if a_inserted {
                match new.get(&key(a)) {
                    Some(info) => assert!(b_same_as_a || info.comment.is_some() == CM),
                    None => assert!(false),
                }
            }
            if b_inserted { assert!(new.has(&key(b))); }
            if REM && !(ADDS >= 1 && a == r) && !(ADDS >= 2 && b == r) { assert!(!new.has(&key(r))); }
        }
    }
    // the configuration the delta was computed from is untouched
    assert!(routes.len() == HAVE as usize);
    assert!(routes.has(&key(e0)) == HAVE);
    // witnesses (few: CBMC builds a full trace per satisfied witness, which is
    // what exhausted memory with ten of them)
    kani::cover!(if !HAVE && REM { res.is_err() } else { res.is_ok() });
    kani::cover!(res.is_err() && if ADDS >= 1 { rem_ok && spec_len_valid(&a) && spec_held_v4(held, &a) && (a_dup || !b_ok) } else { !rem_ok });
    // comment update of an existing entry resp. remove-then-re-add in one delta
    kani::cover!(ADDS < 1 || !HAVE || if REM { res.is_ok() && r == e0 && a == e0 } else if CM { res.is_ok() && a_same_as_e0 } else { res.is_err() && a_dup });
    kani::cover!(ADDS < 2 || (res.is_err() && a_ok && rem_ok && b_same_as_a && bk == ak));    // duplicate inside the delta
    std::mem::forget((res, routes, resources, updates));
}

// vk: timeout=900; flags=--no-assertion-reach-checks --no-memory-safety-checks; bound=empty configuration, delta = 1 removal (always unknown); every payload an arbitrary IPv4 prefix with any max length and origin, held = one arbitrary IPv4 prefix (RoaPayload::held_by replaced by its specification, shown equivalent by c05b_held_by_v4); model map (harness/kani_map.rs)
#[kani::proof]
#[kani::unwind(5)]
#[kani::stub(rpki::repository::x509::Time::now, stub_now)]
#[kani::stub(crate::api::roa::RoaPayload::held_by, stub_held_by)]
fn c05f_roa_delta_empty_rem() { roa_delta::<false, true, 0, false>(); }

// vk: tier=thorough; timeout=1500; flags=--no-assertion-reach-checks --no-memory-safety-checks; bound=1 existing authorisation, delta = 1 removal; every payload an arbitrary IPv4 prefix with any max length and origin, held = one arbitrary IPv4 prefix (RoaPayload::held_by replaced by its specification, shown equivalent by c05b_held_by_v4); model map (harness/kani_map.rs)
#[kani::proof]
#[kani::unwind(5)]
#[kani::stub(rpki::repository::x509::Time::now, stub_now)]
#[kani::stub(crate::api::roa::RoaPayload::held_by, stub_held_by)]
fn c05f_roa_delta_have_rem() { roa_delta::<true, true, 0, false>(); }

// vk: tier=thorough; timeout=2400; flags=--no-assertion-reach-checks --no-memory-safety-checks; bound=1 existing authorisation, delta = 1 addition, no comments (same payload = duplicate); every payload an arbitrary IPv4 prefix with any max length and origin, held = one arbitrary IPv4 prefix (RoaPayload::held_by replaced by its specification, shown equivalent by c05b_held_by_v4); model map (harness/kani_map.rs)
#[kani::proof]
#[kani::unwind(3)]
#[kani::stub(rpki::repository::x509::Time::now, stub_now)]
#[kani::stub(crate::api::roa::RoaPayload::held_by, stub_held_by)]
fn x05f_roa_delta_have_add() { roa_delta::<true, false, 1, false>(); }

// vk: tier=thorough; timeout=2400; flags=--no-assertion-reach-checks --no-memory-safety-checks; bound=1 existing authorisation with a one-letter comment, delta = 1 addition with a one-letter comment (same payload: same letter = duplicate, other letter = comment update); every payload an arbitrary IPv4 prefix with any max length and origin, held = one arbitrary IPv4 prefix (RoaPayload::held_by replaced by its specification, shown equivalent by c05b_held_by_v4); model map (harness/kani_map.rs)
#[kani::proof]
#[kani::unwind(3)]
#[kani::stub(rpki::repository::x509::Time::now, stub_now)]
#[kani::stub(crate::api::roa::RoaPayload::held_by, stub_held_by)]
fn x05f_roa_delta_have_add_comments() { roa_delta::<true, false, 1, true>(); }

// vk: tier=thorough; timeout=2400; flags=--no-assertion-reach-checks --no-memory-safety-checks; bound=1 existing authorisation, delta = 1 removal + 1 addition (incl. remove-then-re-add); every payload an arbitrary IPv4 prefix with any max length and origin, held = one arbitrary IPv4 prefix (RoaPayload::held_by replaced by its specification, shown equivalent by c05b_held_by_v4); model map (harness/kani_map.rs)
#[kani::proof]
#[kani::unwind(3)]
#[kani::stub(rpki::repository::x509::Time::now, stub_now)]
#[kani::stub(crate::api::roa::RoaPayload::held_by, stub_held_by)]
fn x05f_roa_delta_have_rem_add() { roa_delta::<true, true, 1, false>(); }

// vk: tier=thorough; timeout=2400; flags=--no-assertion-reach-checks --no-memory-safety-checks; bound=empty configuration, delta = 2 additions (the second may repeat the first); every payload an arbitrary IPv4 prefix with any max length and origin, held = one arbitrary IPv4 prefix (RoaPayload::held_by replaced by its specification, shown equivalent by c05b_held_by_v4); model map (harness/kani_map.rs)
#[kani::proof]
#[kani::unwind(3)]
#[kani::stub(rpki::repository::x509::Time::now, stub_now)]
#[kani::stub(crate::api::roa::RoaPayload::held_by, stub_held_by)]
fn x05f_roa_delta_two_adds() { roa_delta::<false, false, 2, false>(); }

/// An IPv6 addition can never be held by a CA whose only resource is an IPv4
/// prefix: refused, whatever its bits (the address-family finding F4 seen
/// through `process_updates`; here the REAL `held_by` runs).
// vk: timeout=1500; flags=--no-assertion-reach-checks --no-memory-safety-checks; bound=empty configuration, delta = 1 addition of an arbitrary IPv6 payload, held = one arbitrary IPv4 prefix; real held_by; model map
#[kani::proof]
#[kani::unwind(6)]
#[kani::stub(rpki::repository::x509::Time::now, stub_now)]
fn c05f_roa_delta_v6_add_refused() {
    let held = any_v4();
    let resources: ResourceSet = TypedPrefix::V4(held).into();
    let routes = Routes::default();
    let a = any_payload_v6();
    let updates = RoaConfigurationUpdates { added: vec![RoaConfiguration { payload: a, comment: None }], removed: Vec::new() };
    let ca = CaHandle::new("ca".into());
    let res = routes.process_updates(&ca, &resources, &updates);
    assert!(res.is_err());
    kani::cover!(spec_len_valid(&a));
    std::mem::forget((res, routes, resources, updates));
}

/// One addition to an empty configuration: accepted exactly when the maximum
/// length is valid and the prefix is held; this is the harness that notices a
/// guard call missing from `process_updates`.
// vk: tier=thorough; timeout=1200; flags=--no-assertion-reach-checks --no-memory-safety-checks; bound=empty configuration, delta = 1 addition without comment; payload an arbitrary IPv4 prefix with any max length and origin, held = one arbitrary IPv4 prefix (RoaPayload::held_by replaced by its specification, shown equivalent by c05b_held_by_v4); model map (harness/kani_map.rs)
#[kani::proof]
#[kani::unwind(5)]
#[kani::stub(rpki::repository::x509::Time::now, stub_now)]
#[kani::stub(crate::api::roa::RoaPayload::held_by, stub_held_by)]
fn c05f_roa_delta_empty_add() {
    let held = any_v4();
    hold(held);
    #[cfg(not(test))]
    let resources = ResourceSet::default();
    #[cfg(test)]
    let resources: ResourceSet = TypedPrefix::V4(held).into();
    let routes = Routes::default();
    let a = any_payload_v4();
    let updates = RoaConfigurationUpdates { added: vec![RoaConfiguration { payload: a, comment: None }], removed: Vec::new() };
    let ca = CaHandle::new("ca".into());
    let res = routes.process_updates(&ca, &resources, &updates);
    assert!(res.is_ok() == (spec_len_valid(&a) && spec_held_v4(held, &a)));
    match &res {
        Ok((new, events)) => assert!(new.len() == 1 && new.has(&key(a)) && events.len() == 1),
        Err(_) => {}
    }
    assert!(routes.len() == 0);
    kani::cover!(res.is_ok());
    kani::cover!(res.is_err() && spec_len_valid(&a));
    std::mem::forget((res, routes, resources, updates));
}

#[cfg(test)]
#[path = "/verif/.cache/playback/server_ca_roa.rs"]
mod playback;
