// Kani harnesses compiled as `mod verif_kani` inside /repo/src/api/admin.rs (cfg(kani) only).
