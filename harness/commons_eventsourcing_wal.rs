// Kani harnesses compiled as `mod verif_kani` inside /repo/src/commons/eventsourcing/wal.rs (cfg(kani) only).
