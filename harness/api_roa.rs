// Kani harnesses compiled as `mod verif_kani` inside /repo/src/api/roa.rs (cfg(kani) only).
//
// Kernels: RoaPayload::{nr_of_specific_prefixes, max_length_valid, includes,
// overlaps, effective_max_length, into_explicit_max_length},
// TypedPrefix::matching_or_less_specific, Ipv4Prefix/Ipv6Prefix::{resize,
// from_str}, AsNumber::from_str, RoaConfigurationUpdates::set_explicit_max_length.
use super::*;

//------------ fixtures shared with other harness modules -------------------

/// An arbitrary well-formed IPv4 prefix (len <= 32, host bits zero): the
/// invariant the private fields of `Ipv4Prefix` enforce.
pub(crate) fn any_v4() -> Ipv4Prefix {
    let bits: u32 = kani::any();
    let len: u8 = kani::any();
    kani::assume(len <= 32);
    kani::assume(len == 32 || bits & (u32::MAX >> len) == 0);
    Ipv4Prefix { addr: Ipv4Addr::from_bits(bits), addr_len: len }
}

/// An arbitrary well-formed IPv6 prefix.
pub(crate) fn any_v6() -> Ipv6Prefix {
    let bits: u128 = kani::any();
    let len: u8 = kani::any();
    kani::assume(len <= 128);
    kani::assume(len == 128 || bits & (u128::MAX >> len) == 0);
    Ipv6Prefix { addr: Ipv6Addr::from_bits(bits), addr_len: len }
}

pub(crate) fn v4_bits(p: Ipv4Prefix) -> u32 { p.addr.to_bits() }
pub(crate) fn v6_bits(p: Ipv6Prefix) -> u128 { p.addr.to_bits() }

/// Arbitrary payload over an arbitrary v4 prefix; max length unconstrained.
pub(crate) fn any_payload_v4() -> RoaPayload {
    RoaPayload {
        asn: AsNumber::from_u32(kani::any()),
        prefix: TypedPrefix::V4(any_v4()),
        max_length: kani::any(),
    }
}

pub(crate) fn any_payload_v6() -> RoaPayload {
    RoaPayload {
        asn: AsNumber::from_u32(kani::any()),
        prefix: TypedPrefix::V6(any_v6()),
        max_length: kani::any(),
    }
}

/// Bit-level "a covers b" on raw (bits, len) pairs, width W.
fn spec_covers32(ab: u32, al: u8, bb: u32, bl: u8) -> bool {
    al <= bl && (al == 0 || (ab >> (32 - al as u32)) == (bb >> (32 - al as u32)))
}
fn spec_covers128(ab: u128, al: u8, bb: u128, bl: u8) -> bool {
    al <= bl && (al == 0 || (ab >> (128 - al as u32)) == (bb >> (128 - al as u32)))
}

/// RFC 6811: does the payload authorise (match) the announcement (prefix
/// bits/len, origin)? Bit-level, independent of krill's helper functions.
fn spec_authorises_v4(r: &RoaPayload, qb: u32, ql: u8) -> bool {
    let TypedPrefix::V4(p) = r.prefix else { return false };
    let eff = match r.max_length { Some(m) => m, None => p.addr_len };
    spec_covers32(p.addr.to_bits(), p.addr_len, qb, ql) && ql <= eff
}
fn spec_authorises_v6(r: &RoaPayload, qb: u128, ql: u8) -> bool {
    let TypedPrefix::V6(p) = r.prefix else { return false };
    let eff = match r.max_length { Some(m) => m, None => p.addr_len };
    spec_covers128(p.addr.to_bits(), p.addr_len, qb, ql) && ql <= eff
}

/// Bit-level "the CA holding exactly `held` holds the payload's prefix".
pub(crate) fn spec_held_v4(held: Ipv4Prefix, p: &RoaPayload) -> bool {
    let TypedPrefix::V4(pp) = p.prefix else { return false };
    spec_covers32(held.addr.to_bits(), held.addr_len, pp.addr.to_bits(), pp.addr_len)
}

/// The documented validity of a maximum length.
pub(crate) fn spec_len_valid(p: &RoaPayload) -> bool {
    let (l, w) = match p.prefix { TypedPrefix::V4(x) => (x.addr_len, 32u8), TypedPrefix::V6(x) => (x.addr_len, 128u8) };
    match p.max_length { None => true, Some(m) => l <= m && m <= w }
}

//------------ C16(a) / C17(c): client-controlled arithmetic ------------------

/// For every v4 payload that `max_length_valid` accepts,
/// `nr_of_specific_prefixes` returns 2^(max-len) without panic/overflow.
#[kani::proof]
fn c16a_nr_specific_v4() {
    let p = any_payload_v4();
    kani::assume(p.max_length_valid());
    let n = p.nr_of_specific_prefixes();
    let d = (p.effective_max_length() - p.prefix.addr_len()) as u32;
    assert!(d <= 32);
    assert!(n == 1u128 << d);
    kani::cover!(d == 32);
    kani::cover!(d == 0);
}

/// Same for v6. `::/0-128` would be 2^128, which does not fit u128: the
/// count must then saturate (or otherwise not panic). We assert: no panic,
/// and the exact power of two whenever it is representable.
#[kani::proof]
fn c16a_nr_specific_v6() {
    let p = any_payload_v6();
    kani::assume(p.max_length_valid());
    let n = p.nr_of_specific_prefixes();
    let d = (p.effective_max_length() - p.prefix.addr_len()) as u32;
    assert!(d <= 128);
    if d < 128 {
        assert!(n == 1u128 << d);
    }
    // d == 128: 2^128 is not representable; the property only demands that
    // the call returns (no panic), which the implicit checks decide.
    kani::cover!(d == 128);
    kani::cover!(d == 127);
    kani::cover!(d == 0);
}

/// `max_length_valid` ⇔ no max length, or prefix length <= max <= width.
#[kani::proof]
fn c05a_max_length_valid_v4() {
    let p = any_payload_v4();
    let expect = match p.max_length {
        None => true,
        Some(m) => m >= p.prefix.addr_len() && m <= 32,
    };
    assert!(p.max_length_valid() == expect);
    kani::cover!(p.max_length_valid() && p.max_length == Some(32));
    kani::cover!(!p.max_length_valid() && p.max_length == Some(33));
    kani::cover!(!p.max_length_valid() && p.max_length.unwrap_or(200) < p.prefix.addr_len());
}

#[kani::proof]
fn c05a_max_length_valid_v6() {
    let p = any_payload_v6();
    let expect = match p.max_length {
        None => true,
        Some(m) => m >= p.prefix.addr_len() && m <= 128,
    };
    assert!(p.max_length_valid() == expect);
    kani::cover!(p.max_length_valid() && p.max_length == Some(128));
    kani::cover!(!p.max_length_valid() && p.max_length == Some(129));
}

/// `resize` never panics for any requested length, yields a well-formed
/// prefix that covers (bit-level) the original when shortened.
#[kani::proof]
fn c16a_resize_v4() {
    let p = any_v4();
    let l: u8 = kani::any();
    let r = p.resize(l);
    assert!(r.addr_len <= 32);
    assert!(r.addr_len == if l >= 32 { 32 } else { l });
    assert!(r.addr_len == 32 || r.addr.to_bits() & (u32::MAX >> r.addr_len) == 0);
    if l <= p.addr_len {
        assert!(spec_covers32(r.addr.to_bits(), r.addr_len, p.addr.to_bits(), p.addr_len));
    }
    kani::cover!(l > 32);
    kani::cover!(l < p.addr_len);
}

#[kani::proof]
fn c16a_resize_v6() {
    let p = any_v6();
    let l: u8 = kani::any();
    let r = p.resize(l);
    assert!(r.addr_len == if l >= 128 { 128 } else { l });
    assert!(r.addr_len == 128 || r.addr.to_bits() & (u128::MAX >> r.addr_len) == 0);
    if l <= p.addr_len {
        assert!(spec_covers128(r.addr.to_bits(), r.addr_len, p.addr.to_bits(), p.addr_len));
    }
    kani::cover!(l > 128);
    kani::cover!(l < p.addr_len);
}

//------------ C17(c): includes / overlaps / matching_or_less_specific --------

/// `matching_or_less_specific` ⇔ same family ∧ bit-level covers.
#[kani::proof]
fn c17c_matching_or_less_specific_v4() {
    let a = any_v4();
    let b = any_v4();
    let got = TypedPrefix::V4(a).matching_or_less_specific(TypedPrefix::V4(b));
    assert!(got == spec_covers32(a.addr.to_bits(), a.addr_len, b.addr.to_bits(), b.addr_len));
    kani::cover!(got && a.addr_len < b.addr_len);
    kani::cover!(!got && a.addr_len < b.addr_len);
}

#[kani::proof]
fn c17c_matching_or_less_specific_v6() {
    let a = any_v6();
    let b = any_v6();
    let got = TypedPrefix::V6(a).matching_or_less_specific(TypedPrefix::V6(b));
    assert!(got == spec_covers128(a.addr.to_bits(), a.addr_len, b.addr.to_bits(), b.addr_len));
    kani::cover!(got && a.addr_len < b.addr_len);
    kani::cover!(!got && a.addr_len < b.addr_len);
}

#[kani::proof]
fn c17c_matching_or_less_specific_mixed() {
    let a = any_v4();
    let b = any_v6();
    assert!(!TypedPrefix::V4(a).matching_or_less_specific(TypedPrefix::V6(b)));
    assert!(!TypedPrefix::V6(b).matching_or_less_specific(TypedPrefix::V4(a)));
    kani::cover!(a.addr_len == 0 && b.addr_len == 0);
}

/// `a.includes(b)` ⇔ same ASN ∧ everything b authorises is authorised by a.
/// (⇒) one arbitrary announcement q; (⇐) by the two extremal witnesses of b
/// (its own prefix, and its address at its maximum length).
#[kani::proof]
fn c17c_includes_v4() {
    let a = any_payload_v4();
    let b = any_payload_v4();
    kani::assume(a.max_length_valid() && b.max_length_valid());
    let inc = a.includes(b);
    let (qb, ql): (u32, u8) = (kani::any(), kani::any());
    kani::assume(ql <= 32);
    if inc {
        assert!(a.asn == b.asn);
        if spec_authorises_v4(&b, qb, ql) {
            assert!(spec_authorises_v4(&a, qb, ql));
        }
    } else if a.asn == b.asn {
        let TypedPrefix::V4(bp) = b.prefix else { unreachable!() };
        let w1 = spec_authorises_v4(&a, bp.addr.to_bits(), bp.addr_len);
        let w2 = spec_authorises_v4(&a, bp.addr.to_bits(), b.effective_max_length());
        assert!(!(w1 && w2));
    }
    kani::cover!(inc && a != b);
    kani::cover!(!inc && a.asn == b.asn);
}

#[kani::proof]
fn c17c_includes_v6() {
    let a = any_payload_v6();
    let b = any_payload_v6();
    kani::assume(a.max_length_valid() && b.max_length_valid());
    let inc = a.includes(b);
    let (qb, ql): (u128, u8) = (kani::any(), kani::any());
    kani::assume(ql <= 128);
    if inc {
        assert!(a.asn == b.asn);
        if spec_authorises_v6(&b, qb, ql) {
            assert!(spec_authorises_v6(&a, qb, ql));
        }
    } else if a.asn == b.asn {
        let TypedPrefix::V6(bp) = b.prefix else { unreachable!() };
        let w1 = spec_authorises_v6(&a, bp.addr.to_bits(), bp.addr_len);
        let w2 = spec_authorises_v6(&a, bp.addr.to_bits(), b.effective_max_length());
        assert!(!(w1 && w2));
    }
    kani::cover!(inc && a != b);
    kani::cover!(!inc && a.asn == b.asn);
}

/// `overlaps` ⇔ one prefix covers the other (symmetric); never across families.
#[kani::proof]
fn c17c_overlaps_v4() {
    let a = any_payload_v4();
    let b = any_payload_v4();
    let TypedPrefix::V4(ap) = a.prefix else { unreachable!() };
    let TypedPrefix::V4(bp) = b.prefix else { unreachable!() };
    let expect = spec_covers32(ap.addr.to_bits(), ap.addr_len, bp.addr.to_bits(), bp.addr_len)
        || spec_covers32(bp.addr.to_bits(), bp.addr_len, ap.addr.to_bits(), ap.addr_len);
    assert!(a.overlaps(b) == expect);
    assert!(a.overlaps(b) == b.overlaps(a));
    kani::cover!(expect);
    kani::cover!(!expect);
}

//------------ C05(d): explicit max length normalisation ----------------------

#[kani::proof]
fn c05d_into_explicit_max_length() {
    let p = if kani::any() { any_payload_v4() } else { any_payload_v6() };
    let q = p.into_explicit_max_length();
    assert!(q.asn == p.asn && q.prefix == p.prefix);
    assert!(q.max_length == Some(p.effective_max_length()));
    assert!(q.effective_max_length() == p.effective_max_length());
    // idempotent and validity-preserving
    assert!(q.into_explicit_max_length() == q);
    assert!(q.max_length_valid() == p.max_length_valid());
    kani::cover!(p.max_length.is_none());
    kani::cover!(p.max_length.is_some());
}

/// The delta normaliser touches every entry of `added` and `removed` and
/// nothing but their max length (fixed sizes: 2 added, 2 removed).
// vk: unwindset=memcmp.0:17; bound=2 added + 2 removed entries
#[kani::proof]
#[kani::unwind(4)]
fn c05d_updates_set_explicit_max_length() {
    let a0 = any_payload_v4();
    let a1 = any_payload_v6();
    let r0 = any_payload_v4();
    let r1 = any_payload_v6();
    let mut u = RoaConfigurationUpdates {
        added: vec![RoaConfiguration { payload: a0, comment: None },
                    RoaConfiguration { payload: a1, comment: None }],
        removed: vec![r0, r1],
    };
    u.set_explicit_max_length();
    assert!(u.added.len() == 2 && u.removed.len() == 2);
    assert!(u.added[0].payload == a0.into_explicit_max_length());
    assert!(u.added[1].payload == a1.into_explicit_max_length());
    assert!(u.removed[0] == r0.into_explicit_max_length());
    assert!(u.removed[1] == r1.into_explicit_max_length());
    assert!(u.added[0].comment.is_none() && u.added[1].comment.is_none());
    kani::cover!(a0.max_length.is_none() && r1.max_length.is_some());
    std::mem::forget(u);
}

//------------ C05(b): "is the prefix held" ---------------------------------------

/// The held-resources test `Routes::process_updates`, `Routes::filter` and
/// the BGP analyser apply to each payload: for a CA holding exactly one
/// (arbitrary) prefix, a payload is held iff it is of the same address family
/// and the held prefix covers the payload's prefix bit by bit; the max length
/// plays no role. (Finding F4: the family used to be ignored.)
// vk: bound=held set = one arbitrary v4 prefix; payload arbitrary v4 or v6
#[kani::proof]
#[kani::unwind(6)]
fn c05b_held_by_v4() {
    let held = any_v4();
    let set: ResourceSet = TypedPrefix::V4(held).into();
    let p = any_payload_v4();
    let TypedPrefix::V4(pp) = p.prefix else { unreachable!() };
    let got = p.held_by(&set);
    assert!(got == spec_covers32(held.addr.to_bits(), held.addr_len, pp.addr.to_bits(), pp.addr_len));
    // no v6 payload is held by a v4-only set, whatever its bits
    let q = any_payload_v6();
    assert!(!q.held_by(&set));
    kani::cover!(got && held.addr_len < pp.addr_len);
    kani::cover!(!got && held.addr_len < pp.addr_len);
    kani::cover!(!got && held.addr_len > pp.addr_len);
    std::mem::forget(set);
}

// vk: bound=held set = one arbitrary v6 prefix; payload arbitrary v6 or v4
#[kani::proof]
#[kani::unwind(6)]
fn c05b_held_by_v6() {
    let held = any_v6();
    let set: ResourceSet = TypedPrefix::V6(held).into();
    let p = any_payload_v6();
    let TypedPrefix::V6(pp) = p.prefix else { unreachable!() };
    let got = p.held_by(&set);
    assert!(got == spec_covers128(held.addr.to_bits(), held.addr_len, pp.addr.to_bits(), pp.addr_len));
    let q = any_payload_v4();
    assert!(!q.held_by(&set));
    kani::cover!(got && held.addr_len < pp.addr_len);
    kani::cover!(!got && held.addr_len < pp.addr_len);
    std::mem::forget(set);
}

//------------ C16(b): krill's own prefix / ASN parsers -----------------------

/// `L` arbitrary ASCII bytes with an explicit symbolic length <= L.
pub(crate) fn any_ascii<const N: usize>() -> ([u8; N], usize) {
    let buf: [u8; N] = kani::any();
    let len: usize = kani::any();
    kani::assume(len <= N);
    let mut i = 0;
    while i < N {
        kani::assume(buf[i] < 128);
        i += 1;
    }
    (buf, len)
}

fn check_v4_from_str(s: &str) {
    let r = Ipv4Prefix::from_str(s);
    if let Ok(p) = r {
        assert!(p.addr_len <= 32);
        assert!(p.addr_len == 32 || p.addr.to_bits() & (u32::MAX >> p.addr_len) == 0);
    }
    kani::cover!(r.is_ok());
    kani::cover!(r.is_err());
}

// vk: tier=thorough; timeout=900; bound=0..=9 ASCII bytes (shortest valid prefix text is 9 bytes)
#[kani::proof]
#[kani::unwind(11)]
fn c16b_ipv4prefix_from_str_9() {
    let (buf, len) = any_ascii::<9>();
    let Ok(s) = std::str::from_utf8(&buf[..len]) else { return };
    check_v4_from_str(s);
}

// vk: tier=thorough; timeout=2400; bound=0..=10 ASCII bytes
#[kani::proof]
#[kani::unwind(12)]
fn c16b_ipv4prefix_from_str_10() {
    let (buf, len) = any_ascii::<10>();
    let Ok(s) = std::str::from_utf8(&buf[..len]) else { return };
    check_v4_from_str(s);
}

/// The length part of a prefix text, for every 0..=3 ASCII bytes after the
/// fixed address "::/": no panic (in particular no underflow in
/// `128 - addr_len`), accepted => length <= 128.
// vk: bound=the literal "::/" followed by 0..=3 arbitrary ASCII bytes
#[kani::proof]
#[kani::unwind(8)]
fn c16b_ipv6prefix_length_part() {
    let d: [u8; 3] = kani::any();
    let n: usize = kani::any();
    kani::assume(n <= 3);
    kani::assume(d[0] < 128 && d[1] < 128 && d[2] < 128);
    let buf = [b':', b':', b'/', d[0], d[1], d[2]];
    let Ok(s) = std::str::from_utf8(&buf[..3 + n]) else { return };
    let r = Ipv6Prefix::from_str(s);
    if let Ok(p) = r {
        assert!(p.addr_len <= 128);
        assert!(p.addr.to_bits() == 0);
    }
    kani::cover!(r.is_ok() && n == 3);
    kani::cover!(r.is_err() && n == 3 && d[0] == b'1' && d[1] == b'2' && d[2] == b'9');
}

/// IPv6 prefix text: no panic for any string of up to 6 ASCII bytes (long
/// enough for "::/129" and "::1/0"); accepted => length <= 128, host bits zero.
// vk: tier=thorough; timeout=2400; bound=0..=6 ASCII bytes
#[kani::proof]
#[kani::unwind(8)]
fn c16b_ipv6prefix_from_str_6() {
    let (buf, len) = any_ascii::<6>();
    let Ok(s) = std::str::from_utf8(&buf[..len]) else { return };
    let r = Ipv6Prefix::from_str(s);
    if let Ok(p) = r {
        assert!(p.addr_len <= 128);
        assert!(p.addr_len == 128 || p.addr.to_bits() & (u128::MAX >> p.addr_len) == 0);
    }
    kani::cover!(r.is_ok());
    kani::cover!(r.is_err() && len == 6 && buf[0] == b':' && buf[1] == b':' && buf[2] == b'/');
}

#[kani::proof]
#[kani::unwind(8)]
fn c16b_asnumber_from_str_6() {
    let (buf, len) = any_ascii::<6>();
    let Ok(s) = std::str::from_utf8(&buf[..len]) else { return };
    let r = AsNumber::from_str(s);
    kani::cover!(r.is_ok());
    kani::cover!(r.is_err());
    std::mem::forget(r);
}

#[cfg(test)]
#[path = "/verif/.cache/playback/api_roa.rs"]
mod playback;
