// Kani harnesses compiled as `mod verif_kani` inside /repo/src/server/ca/child.rs (cfg(kani) only).
