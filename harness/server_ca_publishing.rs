// Kani harnesses compiled as `mod verif_kani` inside /repo/src/server/ca/publishing.rs (cfg(kani) only).
//
// Kernels: ObjectSetRevision::{new, create, next, number, this_update,
// next_update}, KeyObjectSet::{requires_reissuance, next_update}.
use super::*;
#[allow(unused_imports)]
use crate::config::verif_kani::{any_timing, stub_now, stub_rng, sym_now, t0};
#[allow(unused_imports)]
use rand::rng as rand_thread_rng;

fn any_time_near() -> Time {
    // any instant within +-2^21 s (24 days) of T0
    let s: i32 = kani::any();
    kani::assume(s > -(1 << 21) && s < (1 << 21));
    t0() + Duration::seconds(s as i64)
}

/// Re-issue numbering: without override the number grows by exactly one, the
/// new this-update is now - 5 min, the next-update is the requested one. The
/// manifest and the CRL are both built from this one `ObjectSetRevision`
/// value, so their numbers agree by construction.
// vk: bound=number any u64 below u64::MAX, old times within 24 days of T0, now in a 2^20 s window
#[kani::proof]
#[kani::stub(rpki::repository::x509::Time::now, stub_now)]
fn c14a_revision_next_plus_one() {
    let now = sym_now();
    let n: u64 = kani::any();
    kani::assume(n < u64::MAX);
    let mut rev = ObjectSetRevision::new(n, any_time_near(), any_time_near());
    let next = any_time_near();
    rev.next(next, None);
    assert!(rev.number() == n + 1);
    assert!(rev.number() > n);
    assert!(rev.this_update() == now - Duration::minutes(5));
    assert!(rev.this_update() <= now);
    assert!(rev.next_update() == next);
    // a second re-issue continues the sequence
    if n < u64::MAX - 1 {
        rev.next(next, None);
        assert!(rev.number() == n + 2);
    }
    kani::cover!(n == 0);
    kani::cover!(n == u64::MAX - 1);
}

/// The initial revision is number 1, issued now - 5 min; the operator's
/// override (outside the property) sets the number verbatim.
#[kani::proof]
#[kani::stub(rpki::repository::x509::Time::now, stub_now)]
fn c14a_revision_create_and_override() {
    let now = sym_now();
    let next = any_time_near();
    let rev = ObjectSetRevision::create(next);
    assert!(rev.number() == 1);
    assert!(rev.this_update() == now - Duration::minutes(5));
    assert!(rev.next_update() == next);
    let mut r2 = rev;
    let k: u64 = kani::any();
    r2.next(next, Some(k));
    assert!(r2.number() == k);
    kani::cover!(k > 1);
}

/// Refresh composed with configuration: after a re-issue with
/// `publish_next()` the window [this_update, next_update] contains now, and
/// next_update - now is exactly the configured number of hours.
// vk: bound=hours 0..=255, jitter 0, now in a 2^20 s window
#[kani::proof]
#[kani::stub(rpki::repository::x509::Time::now, stub_now)]
#[kani::stub(rand_thread_rng, stub_rng)]
fn c14a_reissue_window_contains_now() {
    let now = sym_now();
    let t = any_timing(255);
    let n: u64 = kani::any();
    kani::assume(n < u64::MAX);
    let mut rev = ObjectSetRevision::new(n, any_time_near(), any_time_near());
    rev.next(t.publish_next(), None);
    assert!(rev.this_update() <= now && now <= rev.next_update());
    assert!(rev.next_update() == now + Duration::hours(t.timing_publish_next_hours as i64));
    kani::cover!(t.timing_publish_next_hours == 0);
    kani::cover!(t.timing_publish_next_hours > 24);
}

/// Due-ness: a key's object set requires re-issuance exactly when now is
/// later than next_update minus the configured margin.
///
/// Fixture: `KeyObjectSet` carries a certificate, which cannot be built under
/// the engine (DESIGN §4). `requires_reissuance` reads nothing but the
/// revision, so the set is a `MaybeUninit` with only `revision` written;
/// CBMC treats the rest as arbitrary, which over-approximates every real set.
// vk: bound=margin 0..=255 h, next_update within 24 days of T0, now in a 2^20 s window
#[kani::proof]
#[kani::stub(rpki::repository::x509::Time::now, stub_now)]
fn c14d_requires_reissuance_iff_within_margin() {
    let now = sym_now();
    let next = any_time_near();
    let hours: u8 = kani::any();
    let mut slot = std::mem::MaybeUninit::<KeyObjectSet>::uninit();
    let p = slot.as_mut_ptr();
    unsafe {
        std::ptr::addr_of_mut!((*p).revision).write(ObjectSetRevision::new(7, next, next));
    }
    let set: &KeyObjectSet = unsafe { &*p };
    let due = set.requires_reissuance(hours as i64);
    assert!(set.next_update() == next);
    assert!(due == (now > next - Duration::hours(hours as i64)));
    // already past next-update => due whatever the margin
    if now > next { assert!(due); }
    kani::cover!(due && now < next);
    kani::cover!(!due);
    kani::cover!(due && hours == 0);
}

/// Margin >= lifetime => a freshly re-issued set is immediately due again
/// (the "always due" configuration); margin < lifetime => it is not.
// vk: bound=hours 0..=255, jitter 0, now in a 2^20 s window
#[kani::proof]
#[kani::stub(rpki::repository::x509::Time::now, stub_now)]
#[kani::stub(rand_thread_rng, stub_rng)]
fn c14d_fresh_set_due_iff_margin_ge_lifetime() {
    let _now = sym_now();
    let t = any_timing(255);
    let mut slot = std::mem::MaybeUninit::<KeyObjectSet>::uninit();
    let p = slot.as_mut_ptr();
    let mut rev = ObjectSetRevision::new(1, t0(), t0());
    rev.next(t.publish_next(), None);
    unsafe { std::ptr::addr_of_mut!((*p).revision).write(rev); }
    let set: &KeyObjectSet = unsafe { &*p };
    let due = set.requires_reissuance(t.publish_hours_before_next());
    assert!(due == (t.timing_publish_hours_before_next > t.timing_publish_next_hours));
    kani::cover!(due);
    kani::cover!(!due && t.timing_publish_hours_before_next == t.timing_publish_next_hours);
}

#[cfg(test)]
#[path = "/verif/.cache/playback/server_ca_publishing.rs"]
mod playback;
