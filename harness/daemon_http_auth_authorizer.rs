// Kani harnesses compiled as `mod verif_kani` inside /repo/src/daemon/http/auth/authorizer.rs (cfg(kani) only).
