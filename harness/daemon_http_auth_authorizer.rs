// Kani harnesses compiled as `mod verif_kani` inside /repo/src/daemon/http/auth/authorizer.rs (cfg(kani) only).
//
// Kernels: AuthInfo::{check_permission, has_permission} (the test every route
// handler and every listing filter applies to the authenticated caller).
use super::*;
use crate::daemon::http::auth::permission::verif_kani::{any_permission, any_set};

/// Replacement body for `alloc::fmt::format`: the text of the
/// "insufficient rights" error is not observed, and `core::fmt` is what CBMC
/// cannot afford (DESIGN 1.2).
fn no_text(_args: std::fmt::Arguments<'_>) -> String { String::new() }

fn handle(s: &'static str) -> MyHandle { MyHandle::new(s.into()) }

/// An authenticated caller is served exactly what its role allows - for CA
/// requests and non-CA requests alike - by `check_permission` (the route
/// gate) and by `has_permission` (the listing filter), which always agree.
// vk: timeout=600; bound=role without per-CA entries (general and blanket set arbitrary 32-bit patterns), any of the 22 permissions, CA request or non-CA request; alloc::fmt::format stubbed (error text not observed)
#[kani::proof]
#[kani::unwind(4)]
#[kani::stub(std::fmt::format, no_text)]
fn c13d_authenticated_caller_gets_what_the_role_allows() {
    let none = any_set();
    let any = any_set();
    let p = any_permission();
    let role = Role::complex(none, any, Default::default());
    let info = AuthInfo { actor: Actor::user("u"), permissions: Ok(Arc::new(role)) };
    let ca = handle("ca");
    let for_ca: bool = kani::any();
    let res = if for_ca { Some(&ca) } else { None };
    let checked = info.check_permission(p, res);
    let has = info.has_permission(p, res);
    let expect = if for_ca { any.has(p) } else { none.has(p) };
    assert!(checked.is_ok() == expect);
    assert!(has == expect);
    kani::cover!(expect && for_ca);
    kani::cover!(!expect && !for_ca);
    std::mem::forget((checked, info, ca));
}

/// A caller whose authentication FAILED (wrong credentials) is served
/// nothing: every permission test, for every resource, by both entry points,
/// says no.
// vk: timeout=600; bound=AuthInfo carrying an authentication error, any of the 22 permissions, CA request or non-CA request
#[kani::proof]
#[kani::unwind(4)]
#[kani::stub(std::fmt::format, no_text)]
fn c13d_failed_authentication_grants_nothing() {
    let p = any_permission();
    let info = AuthInfo {
        actor: Actor::anonymous(),
        permissions: Err(ApiAuthError::ApiInvalidCredentials(String::new())),
    };
    let ca = handle("ca");
    let for_ca: bool = kani::any();
    let res = if for_ca { Some(&ca) } else { None };
    let checked = info.check_permission(p, res);
    let has = info.has_permission(p, res);
    assert!(checked.is_err());
    assert!(!has);
    kani::cover!(for_ca);
    kani::cover!(!for_ca);
    std::mem::forget((checked, info, ca));
}

#[cfg(test)]
#[path = "/verif/.cache/playback/daemon_http_auth_authorizer.rs"]
mod playback;
