// Kani harnesses compiled as `mod verif_kani` inside /repo/src/server/bgp/analyser.rs (cfg(kani) only).
//
// Kernels: ValidatedRouteOrigin::<P>::{validate_set, validate} for P = Ipv4Prefix
// and P = Ipv6Prefix; the redundancy comparisons of BgpAnalyser::categorise_roa;
// RoaPayload::includes.
use super::*;
use crate::api::roa::verif_kani::{any_v4, any_v6, v4_bits, v6_bits};
use crate::api::roa::RoaConfiguration;
use super::super::riswhois::verif_kani::origin_set;

//------------ fixtures --------------------------------------------------------

/// An arbitrary configured v4 ROA with a valid (explicit or implicit) max
/// length — what `Routes::process_updates` admits into a configuration.
fn any_roa4() -> ConfiguredRoa {
    let p = any_v4();
    let ml: Option<u8> = kani::any();
    if let Some(ml) = ml {
        kani::assume(ml >= p.addr_len() && ml <= 32);
    }
    ConfiguredRoa {
        roa_configuration: RoaConfiguration {
            payload: RoaPayload {
                asn: AsNumber::from_u32(kani::any()),
                prefix: TypedPrefix::V4(p),
                max_length: ml,
            },
            comment: None,
        },
        roa_objects: Vec::new(),
    }
}

fn any_roa6() -> ConfiguredRoa {
    let p = any_v6();
    let ml: Option<u8> = kani::any();
    if let Some(ml) = ml {
        kani::assume(ml >= p.addr_len() && ml <= 128);
    }
    ConfiguredRoa {
        roa_configuration: RoaConfiguration {
            payload: RoaPayload {
                asn: AsNumber::from_u32(kani::any()),
                prefix: TypedPrefix::V6(p),
                max_length: ml,
            },
            comment: None,
        },
        roa_objects: Vec::new(),
    }
}

fn pfx4(r: &ConfiguredRoa) -> Ipv4Prefix {
    match r.roa_configuration.payload.prefix {
        TypedPrefix::V4(p) => p,
        _ => Ipv4Prefix::default(),
    }
}
fn pfx6(r: &ConfiguredRoa) -> Ipv6Prefix {
    match r.roa_configuration.payload.prefix {
        TypedPrefix::V6(p) => p,
        _ => Ipv6Prefix::default(),
    }
}

//------------ RFC 6811 reference (bit level, independent of krill helpers) ---

#[derive(Clone, Copy)]
struct Vrp { bits: u128, len: u8, max: u8, asn: AsNumber }

#[derive(Clone, Copy)]
struct Route { bits: u128, len: u8, asn: AsNumber }

fn vrp4(r: &ConfiguredRoa) -> Vrp {
    let p = pfx4(r);
    let pl = r.roa_configuration.payload;
    Vrp {
        bits: (v4_bits(p) as u128) << 96,
        len: p.addr_len(),
        max: match pl.max_length { Some(m) => m, None => p.addr_len() },
        asn: pl.asn,
    }
}
fn vrp6(r: &ConfiguredRoa) -> Vrp {
    let p = pfx6(r);
    let pl = r.roa_configuration.payload;
    Vrp {
        bits: v6_bits(p),
        len: p.addr_len(),
        max: match pl.max_length { Some(m) => m, None => p.addr_len() },
        asn: pl.asn,
    }
}

/// RFC 6811 §2 "Covered": the VRP prefix length is <= the route prefix length
/// and the leading `len` bits agree.
fn ref_covers(v: &Vrp, r: &Route) -> bool {
    v.len <= r.len
        && (v.len == 0 || (v.bits >> (128 - v.len as u32)) == (r.bits >> (128 - v.len as u32)))
}
/// RFC 6811 §2 "Matched": covered, route length <= max length, same origin
/// (and origin AS0 never matches, RFC 6483 §4 / RFC 7607).
fn ref_matches(v: &Vrp, r: &Route) -> bool {
    ref_covers(v, r) && r.len <= v.max && v.asn == r.asn
}

#[derive(Clone, Copy, PartialEq, Eq)]
enum RefVerdict { Valid, NotFound, InvalidLength, InvalidAsn, Disallowed }

/// Reference verdict: Valid / NotFound per RFC 6811; the invalid case is split
/// the way krill's API documents it (same origin but too long / only AS0
/// covering / otherwise wrong origin).
fn ref_verdict(vrps: &[Vrp], r: &Route) -> RefVerdict {
    let mut any_cover = false;
    let mut any_match = false;
    let mut same_asn_cover = false;
    let mut non_as0_cover = false;
    let mut i = 0;
    while i < vrps.len() {
        let v = &vrps[i];
        if ref_covers(v, r) {
            any_cover = true;
            if ref_matches(v, r) { any_match = true; }
            if v.asn == r.asn { same_asn_cover = true; }
            if v.asn != AsNumber::AS0 { non_as0_cover = true; }
        }
        i += 1;
    }
    if any_match { RefVerdict::Valid }
    else if !any_cover { RefVerdict::NotFound }
    else if same_asn_cover { RefVerdict::InvalidLength }
    else if non_as0_cover { RefVerdict::InvalidAsn }
    else { RefVerdict::Disallowed }
}

fn verdict_of(v: &RouteOriginValidity) -> RefVerdict {
    match v {
        RouteOriginValidity::Valid(_) => RefVerdict::Valid,
        RouteOriginValidity::NotFound => RefVerdict::NotFound,
        RouteOriginValidity::InvalidLength => RefVerdict::InvalidLength,
        RouteOriginValidity::InvalidAsn => RefVerdict::InvalidAsn,
        RouteOriginValidity::Disallowed => RefVerdict::Disallowed,
    }
}

fn covers_all(vs: &[Vrp], r: &Route) -> usize {
    let mut n = 0;
    let mut i = 0;
    while i < vs.len() {
        if ref_covers(&vs[i], r) { n += 1; }
        i += 1;
    }
    n
}

/// Shared oracle: the verdict krill produced for one route against the given
/// VRPs equals the reference; a `Valid(payload)` witness is one of the ROAs
/// and really matches; `disallowing` is empty for Valid/NotFound and lists
/// exactly the covering ROAs otherwise.
fn check_against_reference(
    got: &RouteOriginValidity,
    disallowing: &[RoaPayload],
    vrps: &[Vrp],
    payloads: &[RoaPayload],
    route: &Route,
) {
    let want = ref_verdict(vrps, route);
    assert!(verdict_of(got) == want);
    match got {
        RouteOriginValidity::Valid(w) => {
            let mut found = false;
            let mut i = 0;
            while i < vrps.len() {
                if payloads[i] == *w && ref_matches(&vrps[i], route) { found = true; }
                i += 1;
            }
            assert!(found);
            assert!(disallowing.is_empty());
        }
        RouteOriginValidity::NotFound => assert!(disallowing.is_empty()),
        _ => {
            assert!(disallowing.len() == covers_all(vrps, route));
            // every listed payload is a covering ROA
            let mut j = 0;
            while j < disallowing.len() {
                let mut ok = false;
                let mut i = 0;
                while i < vrps.len() {
                    if payloads[i] == disallowing[j] && ref_covers(&vrps[i], route) { ok = true; }
                    i += 1;
                }
                assert!(ok);
                j += 1;
            }
        }
    }
}

//------------ C17(b): validate_set vs. RFC 6811 -------------------------------

#[kani::proof]
#[kani::unwind(6)]
fn c17b_validate_v4_1roa() {
    let r0 = any_roa4();
    let ap = any_v4();
    let ann = RouteOrigin { prefix: ap, origin: AsNumber::from_u32(kani::any()) };
    let roas = [Roa::new(pfx4(&r0), &r0)];
    let set = [ann];
    let mut out = Vec::new();
    ValidatedRouteOrigin::validate_set(origin_set(&set), &roas, &mut out);
    assert!(out.len() == 1);
    assert!(out[0].route_origin == ann);
    let route = Route { bits: (v4_bits(ap) as u128) << 96, len: ap.addr_len(), asn: ann.origin };
    check_against_reference(
        &out[0].validity, &out[0].disallowing,
        &[vrp4(&r0)], &[r0.roa_configuration.payload], &route,
    );
    kani::cover!(matches!(out[0].validity, RouteOriginValidity::Valid(_)));
    kani::cover!(matches!(out[0].validity, RouteOriginValidity::NotFound));
    kani::cover!(matches!(out[0].validity, RouteOriginValidity::InvalidLength));
    kani::cover!(matches!(out[0].validity, RouteOriginValidity::InvalidAsn));
    kani::cover!(matches!(out[0].validity, RouteOriginValidity::Disallowed));
    std::mem::forget(out);
}

#[kani::proof]
#[kani::unwind(6)]
fn c17b_validate_v4_2roas() {
    let r0 = any_roa4();
    let r1 = any_roa4();
    let ap = any_v4();
    let ann = RouteOrigin { prefix: ap, origin: AsNumber::from_u32(kani::any()) };
    let roas = [Roa::new(pfx4(&r0), &r0), Roa::new(pfx4(&r1), &r1)];
    let set = [ann];
    let mut out = Vec::new();
    ValidatedRouteOrigin::validate_set(origin_set(&set), &roas, &mut out);
    assert!(out.len() == 1);
    assert!(out[0].route_origin == ann);
    let route = Route { bits: (v4_bits(ap) as u128) << 96, len: ap.addr_len(), asn: ann.origin };
    check_against_reference(
        &out[0].validity, &out[0].disallowing,
        &[vrp4(&r0), vrp4(&r1)],
        &[r0.roa_configuration.payload, r1.roa_configuration.payload],
        &route,
    );
    kani::cover!(matches!(out[0].validity, RouteOriginValidity::Valid(_)));
    kani::cover!(matches!(out[0].validity, RouteOriginValidity::NotFound));
    kani::cover!(matches!(out[0].validity, RouteOriginValidity::InvalidLength));
    kani::cover!(matches!(out[0].validity, RouteOriginValidity::InvalidAsn));
    kani::cover!(matches!(out[0].validity, RouteOriginValidity::Disallowed));
    // the second ROA decides (first covers but does not match)
    kani::cover!(matches!(out[0].validity, RouteOriginValidity::Valid(w) if w == r1.roa_configuration.payload && w != r0.roa_configuration.payload));
    std::mem::forget(out);
}

/// Two origins for the same prefix in one set (the shape RISwhois data has),
/// against one ROA: each origin gets its own verdict.
#[kani::proof]
#[kani::unwind(6)]
fn c17b_validate_v4_set_of_2() {
    let r0 = any_roa4();
    let ap = any_v4();
    let a0 = RouteOrigin { prefix: ap, origin: AsNumber::from_u32(kani::any()) };
    let a1 = RouteOrigin { prefix: ap, origin: AsNumber::from_u32(kani::any()) };
    let roas = [Roa::new(pfx4(&r0), &r0)];
    let set = [a0, a1];
    let mut out = Vec::new();
    ValidatedRouteOrigin::validate_set(origin_set(&set), &roas, &mut out);
    assert!(out.len() == 2);
    assert!(out[0].route_origin == a0 && out[1].route_origin == a1);
    let v = [vrp4(&r0)];
    let p = [r0.roa_configuration.payload];
    let bits = (v4_bits(ap) as u128) << 96;
    check_against_reference(&out[0].validity, &out[0].disallowing, &v, &p,
        &Route { bits, len: ap.addr_len(), asn: a0.origin });
    check_against_reference(&out[1].validity, &out[1].disallowing, &v, &p,
        &Route { bits, len: ap.addr_len(), asn: a1.origin });
    kani::cover!(matches!(out[0].validity, RouteOriginValidity::Valid(_))
        && matches!(out[1].validity, RouteOriginValidity::InvalidAsn));
    kani::cover!(matches!(out[1].validity, RouteOriginValidity::Valid(_))
        && !matches!(out[0].validity, RouteOriginValidity::Valid(_)));
    std::mem::forget(out);
}

// vk: unwindset=memcmp.0:17
#[kani::proof]
#[kani::unwind(6)]
fn c17b_validate_v6_1roa() {
    let r0 = any_roa6();
    let ap = any_v6();
    let ann = RouteOrigin { prefix: ap, origin: AsNumber::from_u32(kani::any()) };
    let roas = [Roa::new(pfx6(&r0), &r0)];
    let set = [ann];
    let mut out = Vec::new();
    ValidatedRouteOrigin::validate_set(origin_set(&set), &roas, &mut out);
    assert!(out.len() == 1);
    let route = Route { bits: v6_bits(ap), len: ap.addr_len(), asn: ann.origin };
    check_against_reference(
        &out[0].validity, &out[0].disallowing,
        &[vrp6(&r0)], &[r0.roa_configuration.payload], &route,
    );
    kani::cover!(matches!(out[0].validity, RouteOriginValidity::Valid(_)));
    kani::cover!(matches!(out[0].validity, RouteOriginValidity::NotFound));
    kani::cover!(matches!(out[0].validity, RouteOriginValidity::InvalidLength));
    kani::cover!(matches!(out[0].validity, RouteOriginValidity::InvalidAsn));
    kani::cover!(matches!(out[0].validity, RouteOriginValidity::Disallowed));
    std::mem::forget(out);
}

// vk: tier=thorough; timeout=1800; unwindset=memcmp.0:17; bound=2 arbitrary v6 ROAs x 1 arbitrary announcement, full 128-bit width
#[kani::proof]
#[kani::unwind(6)]
fn c17b_validate_v6_2roas() {
    let r0 = any_roa6();
    let r1 = any_roa6();
    let ap = any_v6();
    let ann = RouteOrigin { prefix: ap, origin: AsNumber::from_u32(kani::any()) };
    let roas = [Roa::new(pfx6(&r0), &r0), Roa::new(pfx6(&r1), &r1)];
    let set = [ann];
    let mut out = Vec::new();
    ValidatedRouteOrigin::validate_set(origin_set(&set), &roas, &mut out);
    assert!(out.len() == 1);
    let route = Route { bits: v6_bits(ap), len: ap.addr_len(), asn: ann.origin };
    check_against_reference(
        &out[0].validity, &out[0].disallowing,
        &[vrp6(&r0), vrp6(&r1)],
        &[r0.roa_configuration.payload, r1.roa_configuration.payload],
        &route,
    );
    kani::cover!(matches!(out[0].validity, RouteOriginValidity::Valid(_)));
    kani::cover!(matches!(out[0].validity, RouteOriginValidity::NotFound));
    kani::cover!(matches!(out[0].validity, RouteOriginValidity::InvalidLength));
    kani::cover!(matches!(out[0].validity, RouteOriginValidity::InvalidAsn));
    kani::cover!(matches!(out[0].validity, RouteOriginValidity::Disallowed));
    std::mem::forget(out);
}

// vk: tier=thorough; timeout=1800; bound=3 arbitrary v4 ROAs x 1 arbitrary announcement, full 32-bit width
#[kani::proof]
#[kani::unwind(8)]
fn c17b_validate_v4_3roas() {
    let r0 = any_roa4();
    let r1 = any_roa4();
    let r2 = any_roa4();
    let ap = any_v4();
    let ann = RouteOrigin { prefix: ap, origin: AsNumber::from_u32(kani::any()) };
    let roas = [Roa::new(pfx4(&r0), &r0), Roa::new(pfx4(&r1), &r1), Roa::new(pfx4(&r2), &r2)];
    let set = [ann];
    let mut out = Vec::new();
    ValidatedRouteOrigin::validate_set(origin_set(&set), &roas, &mut out);
    assert!(out.len() == 1);
    let route = Route { bits: (v4_bits(ap) as u128) << 96, len: ap.addr_len(), asn: ann.origin };
    check_against_reference(
        &out[0].validity, &out[0].disallowing,
        &[vrp4(&r0), vrp4(&r1), vrp4(&r2)],
        &[r0.roa_configuration.payload, r1.roa_configuration.payload, r2.roa_configuration.payload],
        &route,
    );
    kani::cover!(matches!(out[0].validity, RouteOriginValidity::Valid(_)));
    kani::cover!(matches!(out[0].validity, RouteOriginValidity::Disallowed));
    kani::cover!(matches!(out[0].validity, RouteOriginValidity::InvalidLength));
    std::mem::forget(out);
}

//------------ C17(d): removing a redundant ROA cannot invalidate -------------

/// If R' includes R (payload level) and R matches a route, so does R'.
#[kani::proof]
fn c17d_includes_implies_validates_v4() {
    let r = any_roa4();
    let r2 = any_roa4();
    let ap = any_v4();
    let route = Route { bits: (v4_bits(ap) as u128) << 96, len: ap.addr_len(), asn: AsNumber::from_u32(kani::any()) };
    let inc = r2.roa_configuration.payload.includes(r.roa_configuration.payload);
    if inc && ref_matches(&vrp4(&r), &route) {
        assert!(ref_matches(&vrp4(&r2), &route));
    }
    kani::cover!(inc && ref_matches(&vrp4(&r), &route) && r.roa_configuration.payload != r2.roa_configuration.payload);
    std::mem::forget(r);
    std::mem::forget(r2);
}

#[kani::proof]
fn c17d_includes_implies_validates_v6() {
    let r = any_roa6();
    let r2 = any_roa6();
    let ap = any_v6();
    let route = Route { bits: v6_bits(ap), len: ap.addr_len(), asn: AsNumber::from_u32(kani::any()) };
    let inc = r2.roa_configuration.payload.includes(r.roa_configuration.payload);
    if inc && ref_matches(&vrp6(&r), &route) {
        assert!(ref_matches(&vrp6(&r2), &route));
    }
    kani::cover!(inc && ref_matches(&vrp6(&r), &route) && r.roa_configuration.payload != r2.roa_configuration.payload);
    std::mem::forget(r);
    std::mem::forget(r2);
}

#[cfg(test)]
#[path = "/verif/.cache/playback/server_bgp_analyser.rs"]
mod playback;
