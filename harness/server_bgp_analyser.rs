// Kani harnesses compiled as `mod verif_kani` inside /repo/src/server/bgp/analyser.rs (cfg(kani) only).
//
// Kernels: ValidatedRouteOrigin::<P>::{validate_set, validate} for P = Ipv4Prefix
// and P = Ipv6Prefix; the redundancy comparisons of BgpAnalyser::categorise_roa;
// RoaPayload::includes.
use super::*;
use crate::api::roa::verif_kani::{any_v4, any_v6, v4_bits, v6_bits};
use crate::api::roa::RoaConfiguration;
use super::super::riswhois::verif_kani::origin_set;

//------------ fixtures --------------------------------------------------------

/// An arbitrary configured v4 ROA with a valid (explicit or implicit) max
/// length — what `Routes::process_updates` admits into a configuration.
fn any_roa4() -> ConfiguredRoa {
    let p = any_v4();
    let ml: Option<u8> = kani::any();
    if let Some(ml) = ml {
        kani::assume(ml >= p.addr_len() && ml <= 32);
    }
    ConfiguredRoa {
        roa_configuration: RoaConfiguration {
            payload: RoaPayload {
                asn: AsNumber::from_u32(kani::any()),
                prefix: TypedPrefix::V4(p),
                max_length: ml,
            },
            comment: None,
        },
        roa_objects: Vec::new(),
    }
}

fn any_roa6() -> ConfiguredRoa {
    let p = any_v6();
    let ml: Option<u8> = kani::any();
    if let Some(ml) = ml {
        kani::assume(ml >= p.addr_len() && ml <= 128);
    }
    ConfiguredRoa {
        roa_configuration: RoaConfiguration {
            payload: RoaPayload {
                asn: AsNumber::from_u32(kani::any()),
                prefix: TypedPrefix::V6(p),
                max_length: ml,
            },
            comment: None,
        },
        roa_objects: Vec::new(),
    }
}

fn pfx4(r: &ConfiguredRoa) -> Ipv4Prefix {
    match r.roa_configuration.payload.prefix {
        TypedPrefix::V4(p) => p,
        _ => Ipv4Prefix::default(),
    }
}
fn pfx6(r: &ConfiguredRoa) -> Ipv6Prefix {
    match r.roa_configuration.payload.prefix {
        TypedPrefix::V6(p) => p,
        _ => Ipv6Prefix::default(),
    }
}

//------------ RFC 6811 reference (bit level, independent of krill helpers) ---

#[derive(Clone, Copy)]
struct Vrp { bits: u128, len: u8, max: u8, asn: AsNumber }

#[derive(Clone, Copy)]
struct Route { bits: u128, len: u8, asn: AsNumber }

fn vrp4(r: &ConfiguredRoa) -> Vrp {
    let p = pfx4(r);
    let pl = r.roa_configuration.payload;
    Vrp {
        bits: (v4_bits(p) as u128) << 96,
        len: p.addr_len(),
        max: match pl.max_length { Some(m) => m, None => p.addr_len() },
        asn: pl.asn,
    }
}
fn vrp6(r: &ConfiguredRoa) -> Vrp {
    let p = pfx6(r);
    let pl = r.roa_configuration.payload;
    Vrp {
        bits: v6_bits(p),
        len: p.addr_len(),
        max: match pl.max_length { Some(m) => m, None => p.addr_len() },
        asn: pl.asn,
    }
}

/// RFC 6811 §2 "Covered": the VRP prefix length is <= the route prefix length
/// and the leading `len` bits agree.
fn ref_covers(v: &Vrp, r: &Route) -> bool {
    v.len <= r.len
        && (v.len == 0 || (v.bits >> (128 - v.len as u32)) == (r.bits >> (128 - v.len as u32)))
}
/// RFC 6811 §2 "Matched": covered, route length <= max length, same origin
/// (and origin AS0 never matches, RFC 6483 §4 / RFC 7607).
fn ref_matches(v: &Vrp, r: &Route) -> bool {
    ref_covers(v, r) && r.len <= v.max && v.asn == r.asn
}

#[derive(Clone, Copy, PartialEq, Eq)]
enum RefVerdict { Valid, NotFound, InvalidLength, InvalidAsn, Disallowed }

/// Reference verdict: Valid / NotFound per RFC 6811; the invalid case is split
/// the way krill's API documents it (same origin but too long / only AS0
/// covering / otherwise wrong origin).
fn ref_verdict(vrps: &[Vrp], r: &Route) -> RefVerdict {
    let mut any_cover = false;
    let mut any_match = false;
    let mut same_asn_cover = false;
    let mut non_as0_cover = false;
    let mut i = 0;
    while i < vrps.len() {
        let v = &vrps[i];
        if ref_covers(v, r) {
            any_cover = true;
            if ref_matches(v, r) { any_match = true; }
            if v.asn == r.asn { same_asn_cover = true; }
            if v.asn != AsNumber::AS0 { non_as0_cover = true; }
        }
        i += 1;
    }
    if any_match { RefVerdict::Valid }
    else if !any_cover { RefVerdict::NotFound }
    else if same_asn_cover { RefVerdict::InvalidLength }
    else if non_as0_cover { RefVerdict::InvalidAsn }
    else { RefVerdict::Disallowed }
}

fn verdict_of(v: &RouteOriginValidity) -> RefVerdict {
    match v {
        RouteOriginValidity::Valid(_) => RefVerdict::Valid,
        RouteOriginValidity::NotFound => RefVerdict::NotFound,
        RouteOriginValidity::InvalidLength => RefVerdict::InvalidLength,
        RouteOriginValidity::InvalidAsn => RefVerdict::InvalidAsn,
        RouteOriginValidity::Disallowed => RefVerdict::Disallowed,
    }
}

fn covers_all(vs: &[Vrp], r: &Route) -> usize {
    let mut n = 0;
    let mut i = 0;
    while i < vs.len() {
        if ref_covers(&vs[i], r) { n += 1; }
        i += 1;
    }
    n
}

/// Shared oracle: the verdict krill produced for one route against the given
/// VRPs equals the reference; a `Valid(payload)` witness is one of the ROAs
/// and really matches; `disallowing` is empty for Valid/NotFound and lists
/// exactly the covering ROAs otherwise.
fn check_against_reference(
    got: &RouteOriginValidity,
    disallowing: &[RoaPayload],
    vrps: &[Vrp],
    payloads: &[RoaPayload],
    route: &Route,
) {
    let want = ref_verdict(vrps, route);
    assert!(verdict_of(got) == want);
    match got {
        RouteOriginValidity::Valid(w) => {
            let mut found = false;
            let mut i = 0;
            while i < vrps.len() {
                if payloads[i] == *w && ref_matches(&vrps[i], route) { found = true; }
                i += 1;
            }
            assert!(found);
            assert!(disallowing.is_empty());
        }
        RouteOriginValidity::NotFound => assert!(disallowing.is_empty()),
        _ => {
            assert!(disallowing.len() == covers_all(vrps, route));
            // every listed payload is a covering ROA
            let mut j = 0;
            while j < disallowing.len() {
                let mut ok = false;
                let mut i = 0;
                while i < vrps.len() {
                    if payloads[i] == disallowing[j] && ref_covers(&vrps[i], route) { ok = true; }
                    i += 1;
                }
                assert!(ok);
                j += 1;
            }
        }
    }
}

//------------ C17(b): validate_set vs. RFC 6811 -------------------------------

#[kani::proof]
#[kani::unwind(6)]
fn c17b_validate_v4_1roa() {
    let r0 = any_roa4();
    let ap = any_v4();
    let ann = RouteOrigin { prefix: ap, origin: AsNumber::from_u32(kani::any()) };
    let roas = [Roa::new(pfx4(&r0), &r0)];
    let set = [ann];
    let mut out = Vec::new();
    ValidatedRouteOrigin::validate_set(origin_set(&set), &roas, &mut out);
    assert!(out.len() == 1);
    assert!(out[0].route_origin == ann);
    let route = Route { bits: (v4_bits(ap) as u128) << 96, len: ap.addr_len(), asn: ann.origin };
    check_against_reference(
        &out[0].validity, &out[0].disallowing,
        &[vrp4(&r0)], &[r0.roa_configuration.payload], &route,
    );
    kani::cover!(matches!(out[0].validity, RouteOriginValidity::Valid(_)));
    kani::cover!(matches!(out[0].validity, RouteOriginValidity::NotFound));
    kani::cover!(matches!(out[0].validity, RouteOriginValidity::InvalidLength));
    kani::cover!(matches!(out[0].validity, RouteOriginValidity::InvalidAsn));
    kani::cover!(matches!(out[0].validity, RouteOriginValidity::Disallowed));
    std::mem::forget(out);
}

#[kani::proof]
#[kani::unwind(6)]
fn c17b_validate_v4_2roas() {
    let r0 = any_roa4();
    let r1 = any_roa4();
    let ap = any_v4();
    let ann = RouteOrigin { prefix: ap, origin: AsNumber::from_u32(kani::any()) };
    let roas = [Roa::new(pfx4(&r0), &r0), Roa::new(pfx4(&r1), &r1)];
    let set = [ann];
    let mut out = Vec::new();
    ValidatedRouteOrigin::validate_set(origin_set(&set), &roas, &mut out);
    assert!(out.len() == 1);
    assert!(out[0].route_origin == ann);
    let route = Route { bits: (v4_bits(ap) as u128) << 96, len: ap.addr_len(), asn: ann.origin };
    check_against_reference(
        &out[0].validity, &out[0].disallowing,
        &[vrp4(&r0), vrp4(&r1)],
        &[r0.roa_configuration.payload, r1.roa_configuration.payload],
        &route,
    );
    kani::cover!(matches!(out[0].validity, RouteOriginValidity::Valid(_)));
    kani::cover!(matches!(out[0].validity, RouteOriginValidity::NotFound));
    kani::cover!(matches!(out[0].validity, RouteOriginValidity::InvalidLength));
    kani::cover!(matches!(out[0].validity, RouteOriginValidity::InvalidAsn));
    kani::cover!(matches!(out[0].validity, RouteOriginValidity::Disallowed));
    // the second ROA decides (first covers but does not match)
    kani::cover!(matches!(out[0].validity, RouteOriginValidity::Valid(w) if w == r1.roa_configuration.payload && w != r0.roa_configuration.payload));
    std::mem::forget(out);
}

/// Two origins for the same prefix in one set (the shape RISwhois data has),
/// against one ROA: each origin gets its own verdict.
#[kani::proof]
#[kani::unwind(6)]
fn c17b_validate_v4_set_of_2() {
    let r0 = any_roa4();
    let ap = any_v4();
    let a0 = RouteOrigin { prefix: ap, origin: AsNumber::from_u32(kani::any()) };
    let a1 = RouteOrigin { prefix: ap, origin: AsNumber::from_u32(kani::any()) };
    let roas = [Roa::new(pfx4(&r0), &r0)];
    let set = [a0, a1];
    let mut out = Vec::new();
    ValidatedRouteOrigin::validate_set(origin_set(&set), &roas, &mut out);
    assert!(out.len() == 2);
    assert!(out[0].route_origin == a0 && out[1].route_origin == a1);
    let v = [vrp4(&r0)];
    let p = [r0.roa_configuration.payload];
    let bits = (v4_bits(ap) as u128) << 96;
    check_against_reference(&out[0].validity, &out[0].disallowing, &v, &p,
        &Route { bits, len: ap.addr_len(), asn: a0.origin });
    check_against_reference(&out[1].validity, &out[1].disallowing, &v, &p,
        &Route { bits, len: ap.addr_len(), asn: a1.origin });
    kani::cover!(matches!(out[0].validity, RouteOriginValidity::Valid(_))
        && matches!(out[1].validity, RouteOriginValidity::InvalidAsn));
    kani::cover!(matches!(out[1].validity, RouteOriginValidity::Valid(_))
        && !matches!(out[0].validity, RouteOriginValidity::Valid(_)));
    std::mem::forget(out);
}

// vk: unwindset=memcmp.0:17
#[kani::proof]
#[kani::unwind(6)]
fn c17b_validate_v6_1roa() {
    let r0 = any_roa6();
    let ap = any_v6();
    let ann = RouteOrigin { prefix: ap, origin: AsNumber::from_u32(kani::any()) };
    let roas = [Roa::new(pfx6(&r0), &r0)];
    let set = [ann];
    let mut out = Vec::new();
    ValidatedRouteOrigin::validate_set(origin_set(&set), &roas, &mut out);
    assert!(out.len() == 1);
    let route = Route { bits: v6_bits(ap), len: ap.addr_len(), asn: ann.origin };
    check_against_reference(
        &out[0].validity, &out[0].disallowing,
        &[vrp6(&r0)], &[r0.roa_configuration.payload], &route,
    );
    kani::cover!(matches!(out[0].validity, RouteOriginValidity::Valid(_)));
    kani::cover!(matches!(out[0].validity, RouteOriginValidity::NotFound));
    kani::cover!(matches!(out[0].validity, RouteOriginValidity::InvalidLength));
    kani::cover!(matches!(out[0].validity, RouteOriginValidity::InvalidAsn));
    kani::cover!(matches!(out[0].validity, RouteOriginValidity::Disallowed));
    std::mem::forget(out);
}

// vk: tier=thorough; timeout=1800; unwindset=memcmp.0:17; bound=2 arbitrary v6 ROAs x 1 arbitrary announcement, full 128-bit width
#[kani::proof]
#[kani::unwind(6)]
fn c17b_validate_v6_2roas() {
    let r0 = any_roa6();
    let r1 = any_roa6();
    let ap = any_v6();
    let ann = RouteOrigin { prefix: ap, origin: AsNumber::from_u32(kani::any()) };
    let roas = [Roa::new(pfx6(&r0), &r0), Roa::new(pfx6(&r1), &r1)];
    let set = [ann];
    let mut out = Vec::new();
    ValidatedRouteOrigin::validate_set(origin_set(&set), &roas, &mut out);
    assert!(out.len() == 1);
    let route = Route { bits: v6_bits(ap), len: ap.addr_len(), asn: ann.origin };
    check_against_reference(
        &out[0].validity, &out[0].disallowing,
        &[vrp6(&r0), vrp6(&r1)],
        &[r0.roa_configuration.payload, r1.roa_configuration.payload],
        &route,
    );
    kani::cover!(matches!(out[0].validity, RouteOriginValidity::Valid(_)));
    kani::cover!(matches!(out[0].validity, RouteOriginValidity::NotFound));
    kani::cover!(matches!(out[0].validity, RouteOriginValidity::InvalidLength));
    kani::cover!(matches!(out[0].validity, RouteOriginValidity::InvalidAsn));
    kani::cover!(matches!(out[0].validity, RouteOriginValidity::Disallowed));
    std::mem::forget(out);
}

// vk: tier=thorough; timeout=1800; bound=3 arbitrary v4 ROAs x 1 arbitrary announcement, full 32-bit width
#[kani::proof]
#[kani::unwind(8)]
fn c17b_validate_v4_3roas() {
    let r0 = any_roa4();
    let r1 = any_roa4();
    let r2 = any_roa4();
    let ap = any_v4();
    let ann = RouteOrigin { prefix: ap, origin: AsNumber::from_u32(kani::any()) };
    let roas = [Roa::new(pfx4(&r0), &r0), Roa::new(pfx4(&r1), &r1), Roa::new(pfx4(&r2), &r2)];
    let set = [ann];
    let mut out = Vec::new();
    ValidatedRouteOrigin::validate_set(origin_set(&set), &roas, &mut out);
    assert!(out.len() == 1);
    let route = Route { bits: (v4_bits(ap) as u128) << 96, len: ap.addr_len(), asn: ann.origin };
    check_against_reference(
        &out[0].validity, &out[0].disallowing,
        &[vrp4(&r0), vrp4(&r1), vrp4(&r2)],
        &[r0.roa_configuration.payload, r1.roa_configuration.payload, r2.roa_configuration.payload],
        &route,
    );
    kani::cover!(matches!(out[0].validity, RouteOriginValidity::Valid(_)));
    kani::cover!(matches!(out[0].validity, RouteOriginValidity::Disallowed));
    kani::cover!(matches!(out[0].validity, RouteOriginValidity::InvalidLength));
    std::mem::forget(out);
}

//------------ C17(d): removing a redundant ROA cannot invalidate -------------

/// No-op replacement for `<[T]>::sort`: the ORDER of the lists inside a report
/// entry is not part of the property, and std's sort on vectors of symbolic
/// length is what exhausted memory.
pub(crate) fn nop_sort<T: Ord>(_s: &mut [T]) {}

/// The real redundancy decision: `categorise_roa` on two arbitrary ROAs (no
/// announcements needed for this decision). Whenever it files R0 as
/// "redundant" (the state `suggest` turns into a removal), every route R0
/// matches is also matched by the other ROA, so the removal cannot turn a
/// valid announcement invalid or not-found.
// vk: timeout=900; bound=2 arbitrary v4 ROAs, no announcements, one arbitrary route; list sorting inside report entries stubbed out
#[kani::proof]
#[kani::unwind(5)]
#[kani::stub(<[Announcement]>::sort, nop_sort)]
fn c17d_redundant_removal_safe_v4() {
    let r0 = any_roa4();
    let r1 = any_roa4();
    let roas = [Roa::new(pfx4(&r0), &r0), Roa::new(pfx4(&r1), &r1)];
    let entry = BgpAnalyser::categorise_roa(roas[0], &[], &roas);
    let ap = any_v4();
    let route = Route { bits: (v4_bits(ap) as u128) << 96, len: ap.addr_len(), asn: AsNumber::from_u32(kani::any()) };
    let redundant = entry.state() == BgpAnalysisState::RoaRedundant;
    if redundant && ref_matches(&vrp4(&r0), &route) {
        assert!(ref_matches(&vrp4(&r1), &route));
    }
    kani::cover!(redundant && ref_matches(&vrp4(&r0), &route));
    kani::cover!(!redundant);
    std::mem::forget(entry);
}

// vk: tier=thorough; timeout=1800; unwindset=memcmp.0:17; bound=2 arbitrary v6 ROAs, no announcements, one arbitrary route; list sorting stubbed out
#[kani::proof]
#[kani::unwind(5)]
#[kani::stub(<[Announcement]>::sort, nop_sort)]
fn c17d_redundant_removal_safe_v6() {
    let r0 = any_roa6();
    let r1 = any_roa6();
    let roas = [Roa::new(pfx6(&r0), &r0), Roa::new(pfx6(&r1), &r1)];
    let entry = BgpAnalyser::categorise_roa(roas[0], &[], &roas);
    let ap = any_v6();
    let route = Route { bits: v6_bits(ap), len: ap.addr_len(), asn: AsNumber::from_u32(kani::any()) };
    let redundant = entry.state() == BgpAnalysisState::RoaRedundant;
    if redundant && ref_matches(&vrp6(&r0), &route) {
        assert!(ref_matches(&vrp6(&r1), &route));
    }
    kani::cover!(redundant && ref_matches(&vrp6(&r0), &route));
    kani::cover!(!redundant);
    std::mem::forget(entry);
}

//------------ C17(e): per-ROA categorisation -----------------------------------

fn is_ann(list: &[Announcement], a: &RouteOrigin<Ipv4Prefix>) -> bool {
    list.len() == 1 && list[0].asn == a.origin && list[0].prefix == TypedPrefix::V4(a.prefix)
}

/// `categorise_roa` for a single arbitrary ROA against one arbitrary
/// validated announcement: the entry's `authorizes` holds the announcement
/// iff R0 matches it; `disallows` holds it iff R0 covers it and validation
/// found it invalid; "unseen" iff neither; and the state never contradicts
/// the lists.
// vk: tier=thorough; timeout=1800; bound=1 arbitrary v4 ROA x 1 arbitrary announcement (origin not AS0), full width; list sorting inside report entries stubbed out (order is not part of the property)
#[kani::proof]
#[kani::unwind(6)]
#[kani::stub(<[Announcement]>::sort, nop_sort)]
fn c17e_categorise_sets_1roa_v4() {
    let r0 = any_roa4();
    let ap = any_v4();
    let ann = RouteOrigin { prefix: ap, origin: AsNumber::from_u32(kani::any()) };
    // AS0 never originates a route (RFC 7607); an AS0 ROA "matching" such a
    // route is not a case the property speaks about
    kani::assume(ann.origin != AsNumber::AS0);
    let roas = [Roa::new(pfx4(&r0), &r0)];
    let route = Route { bits: (v4_bits(ap) as u128) << 96, len: ap.addr_len(), asn: ann.origin };
    let vrps = [vrp4(&r0)];
    let m0 = ref_matches(&vrps[0], &route);
    let c0 = ref_covers(&vrps[0], &route);
    let verdict = ref_verdict(&vrps, &route);
    // Composition: c17b shows validate_set == reference verdict, so the
    // validated origin handed to categorise_roa carries the reference verdict
    // (running validate_set in the same harness exceeded the memory cap).
    let validated = [ValidatedRouteOrigin {
        route_origin: ann,
        validity: match verdict {
            RefVerdict::Valid => RouteOriginValidity::Valid(r0.roa_configuration.payload),
            RefVerdict::NotFound => RouteOriginValidity::NotFound,
            RefVerdict::InvalidLength => RouteOriginValidity::InvalidLength,
            RefVerdict::InvalidAsn => RouteOriginValidity::InvalidAsn,
            RefVerdict::Disallowed => RouteOriginValidity::Disallowed,
        },
        disallowing: Vec::new(),
    }];
    let entry = BgpAnalyser::categorise_roa(roas[0], &validated, &roas);
    let invalid = matches!(verdict, RefVerdict::InvalidLength | RefVerdict::InvalidAsn | RefVerdict::Disallowed);
    let st = entry.state();
    match st {
        BgpAnalysisState::RoaAs0Redundant => {
            // by design this entry carries no announcement lists
            assert!(r0.roa_configuration.payload.asn == AsNumber::AS0);
        }
        BgpAnalysisState::RoaAs0 => {
            assert!(r0.roa_configuration.payload.asn == AsNumber::AS0);
            assert!(entry.authorizes().is_empty());
            assert!(is_ann(entry.disallows(), &ann) == (c0 && invalid));
            assert!(entry.disallows().is_empty() == !(c0 && invalid));
        }
        BgpAnalysisState::RoaSeen | BgpAnalysisState::RoaTooPermissive
        | BgpAnalysisState::RoaRedundant | BgpAnalysisState::RoaDisallowing
        | BgpAnalysisState::RoaUnseen => {
            assert!(r0.roa_configuration.payload.asn != AsNumber::AS0);
            assert!(is_ann(entry.authorizes(), &ann) == m0);
            assert!(entry.authorizes().is_empty() == !m0);
            assert!(is_ann(entry.disallows(), &ann) == (c0 && invalid));
            assert!(entry.disallows().is_empty() == !(c0 && invalid));
            if st == BgpAnalysisState::RoaUnseen { assert!(!m0 && !(c0 && invalid)); }
            if st == BgpAnalysisState::RoaDisallowing { assert!(!m0 && c0 && invalid); }
            if st == BgpAnalysisState::RoaSeen || st == BgpAnalysisState::RoaTooPermissive {
                assert!(m0 || (c0 && invalid));
            }
        }
        _ => { assert!(false); }
    }
    kani::cover!(st == BgpAnalysisState::RoaSeen && m0);
    kani::cover!(st == BgpAnalysisState::RoaDisallowing);
    kani::cover!(st == BgpAnalysisState::RoaUnseen);
    kani::cover!(st == BgpAnalysisState::RoaAs0 && c0);
    kani::cover!(st == BgpAnalysisState::RoaTooPermissive);
    std::mem::forget(entry);
}

/// `categorise_roa` for R0 out of two arbitrary ROAs against one arbitrary
/// validated announcement: the entry's `authorizes` holds the announcement
/// iff R0 matches it; `disallows` holds it iff R0 covers it and validation
/// found it invalid; "unseen" iff neither; and the state never contradicts
/// the lists.
// vk: timeout=900; bound=2 arbitrary v4 ROAs x 1 arbitrary announcement (origin not AS0), full width; validated origin = reference verdict (composition with c17b); list sorting inside report entries stubbed out (order is not part of the property)
#[kani::proof]
#[kani::unwind(6)]
#[kani::stub(<[Announcement]>::sort, nop_sort)]
fn c17e_categorise_sets_2roas_v4() {
    let r0 = any_roa4();
    let r1 = any_roa4();
    let ap = any_v4();
    let ann = RouteOrigin { prefix: ap, origin: AsNumber::from_u32(kani::any()) };
    kani::assume(ann.origin != AsNumber::AS0);
    let roas = [Roa::new(pfx4(&r0), &r0), Roa::new(pfx4(&r1), &r1)];
    let route = Route { bits: (v4_bits(ap) as u128) << 96, len: ap.addr_len(), asn: ann.origin };
    let vrps = [vrp4(&r0), vrp4(&r1)];
    let m0 = ref_matches(&vrps[0], &route);
    let c0 = ref_covers(&vrps[0], &route);
    let verdict = ref_verdict(&vrps, &route);
    let validated = [ValidatedRouteOrigin {
        route_origin: ann,
        validity: match verdict {
            RefVerdict::Valid => RouteOriginValidity::Valid(r0.roa_configuration.payload),
            RefVerdict::NotFound => RouteOriginValidity::NotFound,
            RefVerdict::InvalidLength => RouteOriginValidity::InvalidLength,
            RefVerdict::InvalidAsn => RouteOriginValidity::InvalidAsn,
            RefVerdict::Disallowed => RouteOriginValidity::Disallowed,
        },
        disallowing: Vec::new(),
    }];
    let entry = BgpAnalyser::categorise_roa(roas[0], &validated, &roas);
    let invalid = matches!(verdict, RefVerdict::InvalidLength | RefVerdict::InvalidAsn | RefVerdict::Disallowed);
    let st = entry.state();
    match st {
        BgpAnalysisState::RoaAs0Redundant => {
            // by design this entry carries no announcement lists
            assert!(r0.roa_configuration.payload.asn == AsNumber::AS0);
        }
        BgpAnalysisState::RoaAs0 => {
            assert!(r0.roa_configuration.payload.asn == AsNumber::AS0);
            assert!(entry.authorizes().is_empty());
            assert!(is_ann(entry.disallows(), &ann) == (c0 && invalid));
            assert!(entry.disallows().is_empty() == !(c0 && invalid));
        }
        BgpAnalysisState::RoaSeen | BgpAnalysisState::RoaTooPermissive
        | BgpAnalysisState::RoaRedundant | BgpAnalysisState::RoaDisallowing
        | BgpAnalysisState::RoaUnseen => {
            assert!(r0.roa_configuration.payload.asn != AsNumber::AS0);
            assert!(is_ann(entry.authorizes(), &ann) == m0);
            assert!(entry.authorizes().is_empty() == !m0);
            assert!(is_ann(entry.disallows(), &ann) == (c0 && invalid));
            assert!(entry.disallows().is_empty() == !(c0 && invalid));
            if st == BgpAnalysisState::RoaUnseen { assert!(!m0 && !(c0 && invalid)); }
            if st == BgpAnalysisState::RoaDisallowing { assert!(!m0 && c0 && invalid); }
            if st == BgpAnalysisState::RoaSeen || st == BgpAnalysisState::RoaTooPermissive {
                assert!(m0 || (c0 && invalid));
            }
        }
        _ => { assert!(false); }
    }
    kani::cover!(st == BgpAnalysisState::RoaSeen && m0);
    kani::cover!(st == BgpAnalysisState::RoaDisallowing);
    kani::cover!(st == BgpAnalysisState::RoaUnseen);
    kani::cover!(st == BgpAnalysisState::RoaAs0 && c0);
    kani::cover!(st == BgpAnalysisState::RoaRedundant && m0);
    kani::cover!(st == BgpAnalysisState::RoaTooPermissive);
    std::mem::forget(entry);
}

/// If R' includes R (payload level) and R matches a route, so does R'.
#[kani::proof]
fn c17d_includes_implies_validates_v4() {
    let r = any_roa4();
    let r2 = any_roa4();
    let ap = any_v4();
    let route = Route { bits: (v4_bits(ap) as u128) << 96, len: ap.addr_len(), asn: AsNumber::from_u32(kani::any()) };
    let inc = r2.roa_configuration.payload.includes(r.roa_configuration.payload);
    if inc && ref_matches(&vrp4(&r), &route) {
        assert!(ref_matches(&vrp4(&r2), &route));
    }
    kani::cover!(inc && ref_matches(&vrp4(&r), &route) && r.roa_configuration.payload != r2.roa_configuration.payload);
    std::mem::forget(r);
    std::mem::forget(r2);
}

#[kani::proof]
fn c17d_includes_implies_validates_v6() {
    let r = any_roa6();
    let r2 = any_roa6();
    let ap = any_v6();
    let route = Route { bits: v6_bits(ap), len: ap.addr_len(), asn: AsNumber::from_u32(kani::any()) };
    let inc = r2.roa_configuration.payload.includes(r.roa_configuration.payload);
    if inc && ref_matches(&vrp6(&r), &route) {
        assert!(ref_matches(&vrp6(&r2), &route));
    }
    kani::cover!(inc && ref_matches(&vrp6(&r), &route) && r.roa_configuration.payload != r2.roa_configuration.payload);
    std::mem::forget(r);
    std::mem::forget(r2);
}

#[cfg(test)]
#[path = "/verif/.cache/playback/server_bgp_analyser.rs"]
mod playback;
