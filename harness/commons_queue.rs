// Kani harnesses compiled as `mod verif_kani` inside /repo/src/commons/queue.rs (cfg(kani) only).
