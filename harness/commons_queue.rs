// Kani harnesses compiled as `mod verif_kani` inside /repo/src/commons/queue.rs (cfg(kani) only).
//
// Kernel: Queue::split_storage_key (parses keys found in the task store).
use super::*;

fn check_split<const N: usize>() {
    let buf: [u8; N] = kani::any();
    let len: usize = kani::any();
    kani::assume(len <= N);
    // keys come out of the store as `Ident`s: the ident check is the
    // documented precondition (and is itself real code under test)
    let Ok(id) = Ident::from_bytes(&buf[..len]) else { return };
    let r = Queue::split_storage_key(id);
    if let Some((ts, name)) = r {
        assert!(!name.as_str().is_empty());
        // name is a suffix of the key after the first separator
        assert!(name.as_bytes().len() < len);
        assert!(buf[len - name.as_bytes().len() - 1] == b'-');
        // N-2 digits at most
        assert!(ts < 1_000_000_000);
    }
    kani::cover!(r.is_some());
    kani::cover!(r.is_none());
}

/// For every key of up to 6 bytes: no panic, and an accepted key really is
/// "<digits>-<non-empty name>".
// vk: bound=keys of 0..=6 arbitrary bytes
#[kani::proof]
#[kani::unwind(8)]
fn c16d_split_storage_key_6() {
    check_split::<6>();
}

// vk: bound=keys of 0..=8 arbitrary bytes
#[kani::proof]
#[kani::unwind(10)]
fn c16d_split_storage_key_8() {
    check_split::<8>();
}

#[cfg(test)]
#[path = "/verif/.cache/playback/commons_queue.rs"]
mod playback;
