// Kani harnesses compiled as `mod verif_kani` inside /repo/src/api/ta.rs (cfg(kani) only).
