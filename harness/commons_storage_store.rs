// Kani harnesses compiled as `mod verif_kani` inside /repo/src/commons/storage/store.rs (cfg(kani) only).
