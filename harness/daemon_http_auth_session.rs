// Kani harnesses compiled as `mod verif_kani` inside /repo/src/daemon/http/auth/session.rs (cfg(kani) only).
