// Kani harnesses compiled as `mod verif_kani` inside /repo/src/server/taproxy.rs (cfg(kani) only).
