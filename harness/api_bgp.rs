// Kani harnesses compiled as `mod verif_kani` inside /repo/src/api/bgp.rs (cfg(kani) only).
