// Kani harnesses compiled as `mod verif_kani` inside /repo/src/tasigner/signer.rs (cfg(kani) only).
