// Kani harnesses compiled as `mod verif_kani` inside /repo/src/server/pubd/rrdp.rs (cfg(kani) only).
//
// Kernel: RrdpServer::is_request_path_valid (filter in front of the RRDP file server).
use super::*;
use crate::api::roa::verif_kani::any_ascii;

fn check_short<const N: usize>() {
    let (buf, len) = any_ascii::<N>();
    let Ok(s) = std::str::from_utf8(&buf[..len]) else { return };
    let r = RrdpServer::is_request_path_valid(s);
    assert!(r.is_none());
    kani::cover!(len == N && buf[0] == b'/');
    kani::cover!(len == N && buf[0] == b'.' && buf[1] == b'.');
}

/// Arbitrary short request paths: never a panic, never accepted (every
/// acceptable path is at least 13 bytes long).
// vk: tier=thorough; timeout=900; bound=paths of 0..=3 ASCII bytes
#[kani::proof]
#[kani::unwind(6)]
fn c16e_request_path_short_3() {
    check_short::<3>();
}

// vk: tier=thorough; timeout=2400; bound=paths of 0..=4 ASCII bytes
#[kani::proof]
#[kani::unwind(7)]
fn c16e_request_path_short_4() {
    check_short::<4>();
}

// vk: tier=thorough; timeout=2400; bound=paths of 0..=5 ASCII bytes
#[kani::proof]
#[kani::unwind(8)]
fn c16e_request_path_short_5() {
    check_short::<5>();
}

//------------ C11: delta retention and serial numbering (in-memory step) -------
//
// Fixture: an `RrdpServer` needs parsed URIs and paths that the retention code
// never reads. The harnesses write only the fields the functions under test
// read (`deltas`; plus `serial`, `snapshot`, `staged_elements`, `last_update`
// for apply_rrdp_updated) into a `MaybeUninit<RrdpServer>`; CBMC treats the
// rest as arbitrary. All maps are empty (seed stub), all deltas carry no
// elements, so the size-based truncation keeps everything and the age/number
// rules are what is decided.

use crate::config::verif_kani::{const_finish, fixed_random_state, noop_write, stub_now, sym_now, t0};

fn delta_at(serial: u64, age_s: u32, now: Time) -> DeltaData {
    DeltaData::new(serial, now - Duration::seconds(age_s as i64), RrdpFileRandom(String::new()), DeltaElements::default())
}

fn any_rrdp_config() -> RrdpUpdatesConfig {
    let min_nr: usize = kani::any();
    let max_nr: usize = kani::any();
    // documented configuration: at least one delta may be kept, min <= max
    kani::assume(max_nr >= 1 && max_nr <= 8 && min_nr <= max_nr);
    RrdpUpdatesConfig {
        rrdp_delta_files_min_nr: min_nr,
        rrdp_delta_files_min_seconds: kani::any::<u16>() as u32,
        rrdp_delta_files_max_nr: max_nr,
        rrdp_delta_files_max_seconds: kani::any::<u16>() as u32,
        rrdp_delta_interval_min_seconds: 0,
        rrdp_files_archive: false,
    }
}

/// Age/number retention over three existing deltas (newest first, ages
/// non-decreasing): the number kept plus the delta about to be added never
/// exceeds the configured maximum, is never below the configured minimum
/// (when that many exist), every delta younger than the minimum age is kept,
/// nothing older than the maximum age is kept beyond the minimum number, and
/// what is kept is a prefix of the list (so the retained serials stay a
/// contiguous run ending at the newest).
// vk: bound=3 existing deltas with arbitrary non-decreasing ages < 2^17 s, min/max number 0..=8 with 1 <= max and min <= max, min/max age 0..=65535 s, now in a 2^20 s window
#[kani::proof]
#[kani::unwind(6)]
#[kani::stub(rpki::repository::x509::Time::now, stub_now)]
fn c11a_retention_by_age_and_number() {
    let now = sym_now();
    let ages: [u32; 3] = kani::any();
    kani::assume(ages[0] < (1 << 17) && ages[1] < (1 << 17) && ages[2] < (1 << 17));
    kani::assume(ages[0] <= ages[1] && ages[1] <= ages[2]);
    let mut deltas = VecDeque::new();
    deltas.push_back(delta_at(9, ages[0], now));
    deltas.push_back(delta_at(8, ages[1], now));
    deltas.push_back(delta_at(7, ages[2], now));
    let mut slot = std::mem::MaybeUninit::<RrdpServer>::uninit();
    let p = slot.as_mut_ptr();
    unsafe { std::ptr::addr_of_mut!((*p).deltas).write(deltas); }
    let server: &RrdpServer = unsafe { &*p };
    let cfg = any_rrdp_config();
    let keep = server.find_deltas_truncate_age(cfg);
    assert!(keep <= 3);
    // never more than the maximum, counting the delta about to be added
    assert!(keep + 1 <= cfg.rrdp_delta_files_max_nr || keep <= cfg.rrdp_delta_files_min_nr
        || ages[keep - 1] < cfg.rrdp_delta_files_min_seconds);
    // the minimum number is honoured when that many exist
    let min_wanted = if cfg.rrdp_delta_files_min_nr < 3 { cfg.rrdp_delta_files_min_nr } else { 3 };
    assert!(keep >= min_wanted);
    // everything younger than the minimum age is kept
    let mut i = 0;
    while i < 3 {
        if ages[i] < cfg.rrdp_delta_files_min_seconds { assert!(keep > i); }
        i += 1;
    }
    // nothing beyond the minimum rules is older than the maximum age
    if keep > 0 && keep > cfg.rrdp_delta_files_min_nr
        && ages[keep - 1] >= cfg.rrdp_delta_files_min_seconds {
        assert!(ages[keep - 1] <= cfg.rrdp_delta_files_max_seconds);
    }
    kani::cover!(keep == 0);
    kani::cover!(keep == 1);
    kani::cover!(keep == 3);
    kani::cover!(keep == 2 && cfg.rrdp_delta_files_max_nr == 3);
    kani::cover!(keep == 1 && cfg.rrdp_delta_files_max_nr > 3 && cfg.rrdp_delta_files_min_nr == 0);
    std::mem::forget(slot);
}

/// Same rules on four existing deltas.
// vk: tier=thorough; timeout=2400; bound=4 existing deltas with arbitrary non-decreasing ages < 2^17 s, min/max number 0..=8 with 1 <= max and min <= max, min/max age 0..=65535 s
#[kani::proof]
#[kani::unwind(7)]
#[kani::stub(rpki::repository::x509::Time::now, stub_now)]
fn c11a_retention_by_age_and_number_4() {
    let now = sym_now();
    let ages: [u32; 4] = kani::any();
    let mut k = 0;
    while k < 4 {
        kani::assume(ages[k] < (1 << 17));
        if k > 0 { kani::assume(ages[k - 1] <= ages[k]); }
        k += 1;
    }
    let mut deltas = VecDeque::new();
    let mut k = 0;
    while k < 4 { deltas.push_back(delta_at(9 - k as u64, ages[k], now)); k += 1; }
    let mut slot = std::mem::MaybeUninit::<RrdpServer>::uninit();
    let p = slot.as_mut_ptr();
    unsafe { std::ptr::addr_of_mut!((*p).deltas).write(deltas); }
    let server: &RrdpServer = unsafe { &*p };
    let cfg = any_rrdp_config();
    let keep = server.find_deltas_truncate_age(cfg);
    assert!(keep <= 4);
    assert!(keep + 1 <= cfg.rrdp_delta_files_max_nr || keep <= cfg.rrdp_delta_files_min_nr
        || ages[keep - 1] < cfg.rrdp_delta_files_min_seconds);
    let min_wanted = if cfg.rrdp_delta_files_min_nr < 4 { cfg.rrdp_delta_files_min_nr } else { 4 };
    assert!(keep >= min_wanted);
    let mut i = 0;
    while i < 4 {
        if ages[i] < cfg.rrdp_delta_files_min_seconds { assert!(keep > i); }
        i += 1;
    }
    if keep > 0 && keep > cfg.rrdp_delta_files_min_nr
        && ages[keep - 1] >= cfg.rrdp_delta_files_min_seconds {
        assert!(ages[keep - 1] <= cfg.rrdp_delta_files_max_seconds);
    }
    kani::cover!(keep == 0);
    kani::cover!(keep == 4);
    kani::cover!(keep == 3 && cfg.rrdp_delta_files_max_nr == 4);
    std::mem::forget(slot);
}

/// The two age tests the retention rules are built from: a delta is
/// "younger than s" iff its age is below s, "older than s" iff above; never
/// both; at exactly s it is neither (so it is kept by the remainder rule).
// vk: bound=age 0..2^17 s, threshold any u32, now in a 2^20 s window
#[kani::proof]
#[kani::stub(rpki::repository::x509::Time::now, stub_now)]
fn c11c_delta_age_tests() {
    let now = sym_now();
    let age: u32 = kani::any();
    kani::assume(age < (1 << 17));
    let secs: u32 = kani::any();
    let d = delta_at(5, age, now);
    let younger = d.younger_than_seconds(secs.into());
    let older = d.older_than_seconds(secs.into());
    assert!(younger == (age < secs));
    assert!(older == (age > secs));
    assert!(!(younger && older));
    assert!(d.serial() == 5);
    kani::cover!(younger);
    kani::cover!(older);
    kani::cover!(!younger && !older);
    std::mem::forget(d);
}

/// The property's flat wording - "the retained deltas never exceed the
/// configured maximum number" - for configurations with min < max.
/// KNOWN FINDING K1 (known_findings.txt): by documented design every delta
/// younger than `rrdp_delta_files_min_seconds` is kept even beyond
/// `rrdp_delta_files_max_nr`, so this assertion fails on the unchanged tree
/// for e.g. max_nr = 1 and two deltas from the last few seconds. Any other
/// way of exceeding the maximum is caught by c11a (which encodes the
/// documented rules and passes).
// vk: bound=3 existing deltas with arbitrary non-decreasing ages < 2^17 s, 0 <= min < max <= 8, min/max age 0..=65535 s
#[kani::proof]
#[kani::unwind(6)]
#[kani::stub(rpki::repository::x509::Time::now, stub_now)]
fn c11k_retained_never_exceeds_maximum() {
    let now = sym_now();
    let ages: [u32; 3] = kani::any();
    kani::assume(ages[0] < (1 << 17) && ages[1] < (1 << 17) && ages[2] < (1 << 17));
    kani::assume(ages[0] <= ages[1] && ages[1] <= ages[2]);
    let mut deltas = VecDeque::new();
    deltas.push_back(delta_at(9, ages[0], now));
    deltas.push_back(delta_at(8, ages[1], now));
    deltas.push_back(delta_at(7, ages[2], now));
    let mut slot = std::mem::MaybeUninit::<RrdpServer>::uninit();
    let p = slot.as_mut_ptr();
    unsafe { std::ptr::addr_of_mut!((*p).deltas).write(deltas); }
    let server: &RrdpServer = unsafe { &*p };
    let cfg = any_rrdp_config();
    kani::assume(cfg.rrdp_delta_files_min_nr < cfg.rrdp_delta_files_max_nr);
    let keep = server.find_deltas_truncate_age(cfg);
    kani::cover!(keep == 2);
    kani::cover!(keep == 0);
    // retained = kept older deltas + the one being added
    assert!(keep + 1 <= cfg.rrdp_delta_files_max_nr);
    std::mem::forget(slot);
}

/// One in-memory RRDP update: the serial grows by exactly one, the new delta
/// carries the new serial and sits in front of the retained older ones, which
/// are a prefix of the previous list; so if the retained deltas were a
/// contiguous run ending at the old serial they are one ending at the new.
// vk: bound=2 existing deltas (no elements), no staged publishers, truncate position 0..=3, serial any u64 below u64::MAX
#[kani::proof]
#[kani::unwind(8)]
#[kani::stub(rpki::repository::x509::Time::now, stub_now)]
#[kani::stub(std::hash::RandomState::new, fixed_random_state)]
#[kani::stub(<std::hash::DefaultHasher as std::hash::Hasher>::finish, const_finish)]
#[kani::stub(<std::hash::DefaultHasher as std::hash::Hasher>::write, noop_write)]
fn x11b_update_step_serial_and_contiguity() {
    let now = sym_now();
    let serial: u64 = kani::any();
    kani::assume(serial >= 2 && serial < u64::MAX);
    let mut deltas = VecDeque::new();
    deltas.push_back(delta_at(serial, 10, now));
    deltas.push_back(delta_at(serial - 1, 20, now));
    let mut slot = std::mem::MaybeUninit::<RrdpServer>::uninit();
    let p = slot.as_mut_ptr();
    unsafe {
        std::ptr::addr_of_mut!((*p).deltas).write(deltas);
        std::ptr::addr_of_mut!((*p).serial).write(serial);
        std::ptr::addr_of_mut!((*p).last_update).write(t0());
        std::ptr::addr_of_mut!((*p).staged_elements).write(HashMap::new());
        std::ptr::addr_of_mut!((*p).snapshot).write(
            SnapshotData::new(RrdpFileRandom(String::new()), HashMap::new()));
    }
    let server: &mut RrdpServer = unsafe { &mut *p };
    let truncate: usize = kani::any();
    kani::assume(truncate <= 3);
    server.apply_rrdp_updated(RrdpUpdated { time: now, random: RrdpFileRandom(String::new()), deltas_truncate: truncate });
    assert!(server.serial == serial + 1);
    assert!(server.last_update == now);
    let kept_old = if truncate < 2 { truncate } else { 2 };
    assert!(server.deltas.len() == kept_old + 1);
    // newest first, contiguous, ending at the current serial
    let mut i = 0;
    while i < server.deltas.len() {
        assert!(server.deltas[i].serial() == serial + 1 - i as u64);
        i += 1;
    }
    kani::cover!(truncate == 0);
    kani::cover!(truncate == 1);
    kani::cover!(truncate == 3);
    std::mem::forget(slot);
}


//------------ C10: delta verification and application ------------------------
//
// URIs and contents come from `crate::verif_fix` (laid-out fixtures, no
// parser); the content hash is the collision-free model `stub_to_hash`.
// Publisher "a" owns rsync://h/m/a/, publisher "b" owns rsync://h/m/b/.

use crate::verif_fix::{base64_of, hash_of, hash_other, rsync_hm, stub_to_hash};

pub(crate) fn jail_a() -> uri::Rsync { rsync_hm("rsync://h/m/a/") }
pub(crate) fn uri_pick(i: u8) -> uri::Rsync {
    match i {
        0 => rsync_hm("rsync://h/m/a/x"),
        1 => rsync_hm("rsync://h/m/a/y"),
        3 => rsync_hm("rsync://H/m/a/x"),
        _ => rsync_hm("rsync://h/m/b/x"),
    }
}

/// The laid-out fixtures are well-formed values of the real types: the real
/// accessors return what the parser would have produced.
// vk: timeout=600; unwindset=memcmp.0:20; bound=concrete fixture values
#[kani::proof]
#[kani::unwind(20)]
fn c10z_fixtures_are_wellformed() {
    let jail = jail_a();
    let x = uri_pick(0);
    let o = uri_pick(2);
    assert!(jail.as_str() == "rsync://h/m/a/");
    assert!(x.as_str() == "rsync://h/m/a/x");
    assert!(jail.module_name() == "m" && jail.path() == "a/");
    assert!(x.path() == "a/x" && o.path() == "b/x");
    assert!(jail.is_parent_of(&x));
    assert!(!jail.is_parent_of(&o));
    assert!(!jail.is_parent_of(&jail));
    assert!(base64_of(3).as_str() == "AAAD");
    kani::cover!(jail.is_parent_of(&x));
    std::mem::forget((jail, x, o));
}


//------------ C10(a): CurrentObjects::verify_delta_applies ---------------------
//
// Shapes are concrete (which URIs exist, which element kinds the delta has);
// contents and stated hashes are symbolic.  X and Y lie inside publisher a's
// jail, O belongs to publisher b.

use crate::verif_fix::base64_sym;

/// Replacement body for `<CurrentObjectUri as From<&uri::Rsync>>::from`.
/// The real function builds the key with `format!("{}{}", canonical_module,
/// path)`; `core::fmt` dispatches through function pointers that CBMC has to
/// expand against every `Display`/`Debug` implementation in the program (the
/// smallest harness that called it did not finish in 10 min).  The model
/// builds the same text without `fmt`: the URI's bytes with the authority
/// part (between "rsync://" and the next '/') in ASCII lower case.  The
/// native test `vk_key_model_matches_real` (run by the driver through the
/// playback target) compares model and real function on the fixture URIs.
pub(crate) fn model_key_from<'a>(value: &'a uri::Rsync) -> CurrentObjectUri where 'a: 'a {
    let mut v: Vec<u8> = value.as_str().as_bytes().to_vec();
    let alen = value.authority().len();
    v[8..8 + alen].make_ascii_lowercase();
    let a: Arc<str> = Arc::from(unsafe { std::str::from_utf8_unchecked(&v) });
    // no deallocation inside the model, and the key's count pinned at 2 (see
    // verif_fix::base64_raw for why)
    std::mem::forget(v);
    std::mem::forget(a.clone());
    CurrentObjectUri(a)
}

pub(crate) const X: u8 = 0;
pub(crate) const Y: u8 = 1;
pub(crate) const O: u8 = 2;
/// x spelled with an upper-case host name: the same object as X.
pub(crate) const XU: u8 = 3;

/// An arbitrary content letter (16 possibilities).
pub(crate) fn any_content() -> u8 {
    let c: u8 = kani::any();
    kani::assume(c < 16);
    c
}

/// A stated hash: the hash of an arbitrary content, or one that is the hash
/// of no content at all.
pub(crate) fn any_stated_hash() -> (Hash, Option<u8>) {
    let c = any_content();
    if kani::any() { (hash_of(c), Some(c)) } else { (hash_other(), None) }
}

/// Current objects of publisher a: `{x: cx}` (and `y: cy` when `WITH_Y`).
pub(crate) fn current_a<const WITH_Y: bool>(cx: u8, cy: u8) -> CurrentObjects {
    let mut objs = CurrentObjects::default();
    objs.0.insert(CurrentObjectUri::from(&uri_pick(X)), base64_sym(cx));
    if WITH_Y { objs.0.insert(CurrentObjectUri::from(&uri_pick(Y)), base64_sym(cy)); }
    objs
}

pub(crate) fn holds(objs: &CurrentObjects, which: u8, c: u8) -> bool {
    match objs.0.get(&CurrentObjectUri::from(&uri_pick(which))) {
        Some(b) => crate::verif_fix::letter_of(b) == b'A' + c,
        None => false,
    }
}

pub(crate) fn lacks(objs: &CurrentObjects, which: u8) -> bool {
    !objs.0.contains_key(&CurrentObjectUri::from(&uri_pick(which)))
}

/// A one-element delta of kind `KIND` (0 publish, 1 update, 2 withdraw)
/// addressed at URI `W`, against the current set `{x: cx}`: accepted exactly
/// when the URI lies inside the publisher's jail AND (publish: the URI is
/// new; update/withdraw: the URI currently holds content with the stated
/// hash).  One call of the function under test per harness: two calls in one
/// harness exceeded the memory cap.
fn verify_single<const W: u8, const KIND: u8>() {
    let cx = any_content();
    let objs = current_a::<false>(cx, 0);
    let inside = W != O;
    let present = W == X || W == XU;
    let (hash, hc) = any_stated_hash();
    let content = any_content();
    let jail = jail_a();
    let delta = match KIND {
        0 => DeltaElements::new(vec![PublishElement { uri: uri_pick(W), base64: base64_sym(content) }], vec![], vec![]),
        1 => DeltaElements::new(vec![], vec![UpdateElement { uri: uri_pick(W), hash, base64: base64_sym(content) }], vec![]),
        _ => DeltaElements::new(vec![], vec![], vec![WithdrawElement { uri: uri_pick(W), hash }]),
    };
    let res = objs.verify_delta_applies(&delta, &jail);
    let expect = inside && if KIND == 0 { !present } else { present && hc == Some(cx) };
    assert!(res.is_ok() == expect);
    // witness: the interesting outcome of the shape is reachable
    kani::cover!(if KIND != 0 && present { res.is_ok() } else { res.is_ok() == expect });
    std::mem::forget((res, objs, delta, jail));
}

// vk: timeout=600; unwindset=memcmp.0:33; flags=--no-assertion-reach-checks; bound=current set {x: any of 16 contents}; one publish element for a present uri, content and stated hash arbitrary (hash of any content or a foreign hash); modelled: Base64::to_hash (collision-free), CurrentObjectUri::from (no fmt), <[u8]>::eq_ignore_ascii_case (loop-free); model map
#[kani::proof]
#[kani::unwind(5)]
#[kani::stub(rpki::ca::publication::Base64::to_hash, stub_to_hash)]
#[kani::stub(<CurrentObjectUri as core::convert::From<&uri::Rsync>>::from, model_key_from)]
#[kani::stub(<[u8]>::eq_ignore_ascii_case, crate::verif_fix::eq_ignore_ascii_case_16)]
fn c10a_publish_present_uri() { verify_single::<X, 0>(); }

// vk: timeout=600; unwindset=memcmp.0:33; flags=--no-assertion-reach-checks; bound=current set {x: any of 16 contents}; one update element for a present uri, content and stated hash arbitrary (hash of any content or a foreign hash); modelled: Base64::to_hash (collision-free), CurrentObjectUri::from (no fmt), <[u8]>::eq_ignore_ascii_case (loop-free); model map
#[kani::proof]
#[kani::unwind(5)]
#[kani::stub(rpki::ca::publication::Base64::to_hash, stub_to_hash)]
#[kani::stub(<CurrentObjectUri as core::convert::From<&uri::Rsync>>::from, model_key_from)]
#[kani::stub(<[u8]>::eq_ignore_ascii_case, crate::verif_fix::eq_ignore_ascii_case_16)]
fn c10a_update_present_uri() { verify_single::<X, 1>(); }

// vk: timeout=600; unwindset=memcmp.0:33; flags=--no-assertion-reach-checks; bound=current set {x: any of 16 contents}; one withdraw element for a present uri, content and stated hash arbitrary (hash of any content or a foreign hash); modelled: Base64::to_hash (collision-free), CurrentObjectUri::from (no fmt), <[u8]>::eq_ignore_ascii_case (loop-free); model map
#[kani::proof]
#[kani::unwind(5)]
#[kani::stub(rpki::ca::publication::Base64::to_hash, stub_to_hash)]
#[kani::stub(<CurrentObjectUri as core::convert::From<&uri::Rsync>>::from, model_key_from)]
#[kani::stub(<[u8]>::eq_ignore_ascii_case, crate::verif_fix::eq_ignore_ascii_case_16)]
fn c10a_withdraw_present_uri() { verify_single::<X, 2>(); }

// vk: timeout=600; unwindset=memcmp.0:33; flags=--no-assertion-reach-checks; bound=current set {x: any of 16 contents}; one publish element for a present uri other case, content and stated hash arbitrary (hash of any content or a foreign hash); modelled: Base64::to_hash (collision-free), CurrentObjectUri::from (no fmt), <[u8]>::eq_ignore_ascii_case (loop-free); model map
#[kani::proof]
#[kani::unwind(5)]
#[kani::stub(rpki::ca::publication::Base64::to_hash, stub_to_hash)]
#[kani::stub(<CurrentObjectUri as core::convert::From<&uri::Rsync>>::from, model_key_from)]
#[kani::stub(<[u8]>::eq_ignore_ascii_case, crate::verif_fix::eq_ignore_ascii_case_16)]
fn c10a_publish_present_uri_other_case() { verify_single::<XU, 0>(); }

// vk: tier=thorough; timeout=600; unwindset=memcmp.0:33; flags=--no-assertion-reach-checks; bound=current set {x: any of 16 contents}; one update element for a present uri other case, content and stated hash arbitrary (hash of any content or a foreign hash); modelled: Base64::to_hash (collision-free), CurrentObjectUri::from (no fmt), <[u8]>::eq_ignore_ascii_case (loop-free); model map
#[kani::proof]
#[kani::unwind(5)]
#[kani::stub(rpki::ca::publication::Base64::to_hash, stub_to_hash)]
#[kani::stub(<CurrentObjectUri as core::convert::From<&uri::Rsync>>::from, model_key_from)]
#[kani::stub(<[u8]>::eq_ignore_ascii_case, crate::verif_fix::eq_ignore_ascii_case_16)]
fn c10a_update_present_uri_other_case() { verify_single::<XU, 1>(); }

// vk: tier=thorough; timeout=600; unwindset=memcmp.0:33; flags=--no-assertion-reach-checks; bound=current set {x: any of 16 contents}; one withdraw element for a present uri other case, content and stated hash arbitrary (hash of any content or a foreign hash); modelled: Base64::to_hash (collision-free), CurrentObjectUri::from (no fmt), <[u8]>::eq_ignore_ascii_case (loop-free); model map
#[kani::proof]
#[kani::unwind(5)]
#[kani::stub(rpki::ca::publication::Base64::to_hash, stub_to_hash)]
#[kani::stub(<CurrentObjectUri as core::convert::From<&uri::Rsync>>::from, model_key_from)]
#[kani::stub(<[u8]>::eq_ignore_ascii_case, crate::verif_fix::eq_ignore_ascii_case_16)]
fn c10a_withdraw_present_uri_other_case() { verify_single::<XU, 2>(); }

// vk: timeout=600; unwindset=memcmp.0:33; flags=--no-assertion-reach-checks; bound=current set {x: any of 16 contents}; one publish element for a absent uri, content and stated hash arbitrary (hash of any content or a foreign hash); modelled: Base64::to_hash (collision-free), CurrentObjectUri::from (no fmt), <[u8]>::eq_ignore_ascii_case (loop-free); model map
#[kani::proof]
#[kani::unwind(5)]
#[kani::stub(rpki::ca::publication::Base64::to_hash, stub_to_hash)]
#[kani::stub(<CurrentObjectUri as core::convert::From<&uri::Rsync>>::from, model_key_from)]
#[kani::stub(<[u8]>::eq_ignore_ascii_case, crate::verif_fix::eq_ignore_ascii_case_16)]
fn c10a_publish_absent_uri() { verify_single::<Y, 0>(); }

// vk: tier=thorough; timeout=600; unwindset=memcmp.0:33; flags=--no-assertion-reach-checks; bound=current set {x: any of 16 contents}; one update element for a absent uri, content and stated hash arbitrary (hash of any content or a foreign hash); modelled: Base64::to_hash (collision-free), CurrentObjectUri::from (no fmt), <[u8]>::eq_ignore_ascii_case (loop-free); model map
#[kani::proof]
#[kani::unwind(5)]
#[kani::stub(rpki::ca::publication::Base64::to_hash, stub_to_hash)]
#[kani::stub(<CurrentObjectUri as core::convert::From<&uri::Rsync>>::from, model_key_from)]
#[kani::stub(<[u8]>::eq_ignore_ascii_case, crate::verif_fix::eq_ignore_ascii_case_16)]
fn c10a_update_absent_uri() { verify_single::<Y, 1>(); }

// vk: tier=thorough; timeout=600; unwindset=memcmp.0:33; flags=--no-assertion-reach-checks; bound=current set {x: any of 16 contents}; one withdraw element for a absent uri, content and stated hash arbitrary (hash of any content or a foreign hash); modelled: Base64::to_hash (collision-free), CurrentObjectUri::from (no fmt), <[u8]>::eq_ignore_ascii_case (loop-free); model map
#[kani::proof]
#[kani::unwind(5)]
#[kani::stub(rpki::ca::publication::Base64::to_hash, stub_to_hash)]
#[kani::stub(<CurrentObjectUri as core::convert::From<&uri::Rsync>>::from, model_key_from)]
#[kani::stub(<[u8]>::eq_ignore_ascii_case, crate::verif_fix::eq_ignore_ascii_case_16)]
fn c10a_withdraw_absent_uri() { verify_single::<Y, 2>(); }

// vk: timeout=600; unwindset=memcmp.0:33; flags=--no-assertion-reach-checks; bound=current set {x: any of 16 contents}; one publish element for a foreign uri, content and stated hash arbitrary (hash of any content or a foreign hash); modelled: Base64::to_hash (collision-free), CurrentObjectUri::from (no fmt), <[u8]>::eq_ignore_ascii_case (loop-free); model map
#[kani::proof]
#[kani::unwind(5)]
#[kani::stub(rpki::ca::publication::Base64::to_hash, stub_to_hash)]
#[kani::stub(<CurrentObjectUri as core::convert::From<&uri::Rsync>>::from, model_key_from)]
#[kani::stub(<[u8]>::eq_ignore_ascii_case, crate::verif_fix::eq_ignore_ascii_case_16)]
fn c10a_publish_foreign_uri() { verify_single::<O, 0>(); }

// vk: tier=thorough; timeout=600; unwindset=memcmp.0:33; flags=--no-assertion-reach-checks; bound=current set {x: any of 16 contents}; one update element for a foreign uri, content and stated hash arbitrary (hash of any content or a foreign hash); modelled: Base64::to_hash (collision-free), CurrentObjectUri::from (no fmt), <[u8]>::eq_ignore_ascii_case (loop-free); model map
#[kani::proof]
#[kani::unwind(5)]
#[kani::stub(rpki::ca::publication::Base64::to_hash, stub_to_hash)]
#[kani::stub(<CurrentObjectUri as core::convert::From<&uri::Rsync>>::from, model_key_from)]
#[kani::stub(<[u8]>::eq_ignore_ascii_case, crate::verif_fix::eq_ignore_ascii_case_16)]
fn c10a_update_foreign_uri() { verify_single::<O, 1>(); }

// vk: tier=thorough; timeout=600; unwindset=memcmp.0:33; flags=--no-assertion-reach-checks; bound=current set {x: any of 16 contents}; one withdraw element for a foreign uri, content and stated hash arbitrary (hash of any content or a foreign hash); modelled: Base64::to_hash (collision-free), CurrentObjectUri::from (no fmt), <[u8]>::eq_ignore_ascii_case (loop-free); model map
#[kani::proof]
#[kani::unwind(5)]
#[kani::stub(rpki::ca::publication::Base64::to_hash, stub_to_hash)]
#[kani::stub(<CurrentObjectUri as core::convert::From<&uri::Rsync>>::from, model_key_from)]
#[kani::stub(<[u8]>::eq_ignore_ascii_case, crate::verif_fix::eq_ignore_ascii_case_16)]
fn c10a_withdraw_foreign_uri() { verify_single::<O, 2>(); }

/// All or nothing: a delta whose FIRST element is fine (publish y) and whose
/// second is an update or withdraw of x with an arbitrary stated hash is
/// accepted exactly when that second element is acceptable too.
fn verify_pair<const KIND2: u8>() {
    let cx = any_content();
    let objs = current_a::<false>(cx, 0);
    let (hx, hxc) = any_stated_hash();
    let (ny, nx) = (any_content(), any_content());
    let jail = jail_a();
    let publishes = vec![PublishElement { uri: uri_pick(Y), base64: base64_sym(ny) }];
    let delta = if KIND2 == 1 {
        DeltaElements::new(publishes, vec![UpdateElement { uri: uri_pick(X), hash: hx, base64: base64_sym(nx) }], vec![])
    } else {
        DeltaElements::new(publishes, vec![], vec![WithdrawElement { uri: uri_pick(X), hash: hx }])
    };
    let res = objs.verify_delta_applies(&delta, &jail);
    assert!(res.is_ok() == (hxc == Some(cx)));
    kani::cover!(res.is_ok());
    kani::cover!(res.is_err());
    std::mem::forget((res, objs, delta, jail));
}

// vk: timeout=600; unwindset=memcmp.0:33; flags=--no-assertion-reach-checks; bound=current set {x}; delta = publish(y) + update(x) with arbitrary contents and stated hash; models as above
#[kani::proof]
#[kani::unwind(5)]
#[kani::stub(rpki::ca::publication::Base64::to_hash, stub_to_hash)]
#[kani::stub(<CurrentObjectUri as core::convert::From<&uri::Rsync>>::from, model_key_from)]
#[kani::stub(<[u8]>::eq_ignore_ascii_case, crate::verif_fix::eq_ignore_ascii_case_16)]
fn c10a_pair_publish_then_update() { verify_pair::<1>(); }

// vk: tier=thorough; timeout=600; unwindset=memcmp.0:33; flags=--no-assertion-reach-checks; bound=current set {x}; delta = publish(y) + withdraw(x) with arbitrary contents and stated hash; models as above
#[kani::proof]
#[kani::unwind(5)]
#[kani::stub(rpki::ca::publication::Base64::to_hash, stub_to_hash)]
#[kani::stub(<CurrentObjectUri as core::convert::From<&uri::Rsync>>::from, model_key_from)]
#[kani::stub(<[u8]>::eq_ignore_ascii_case, crate::verif_fix::eq_ignore_ascii_case_16)]
fn c10a_pair_publish_then_withdraw() { verify_pair::<2>(); }

/// All or nothing: publish(`P`) + update(x) + withdraw(y) against `{x, y}`
/// where the publish element is never acceptable (occupied or foreign URI):
/// refused whatever the other two elements say.
fn verify_three<const P: u8>() {
    let (cx, cy) = (any_content(), any_content());
    let objs = current_a::<true>(cx, cy);
    let (hx, hxc) = any_stated_hash();
    let (hy, hyc) = any_stated_hash();
    let (np, nx) = (any_content(), any_content());
    let jail = jail_a();
    let delta = DeltaElements::new(
        vec![PublishElement { uri: uri_pick(P), base64: base64_sym(np) }],
        vec![UpdateElement { uri: uri_pick(X), hash: hx, base64: base64_sym(nx) }],
        vec![WithdrawElement { uri: uri_pick(Y), hash: hy }],
    );
    let res = objs.verify_delta_applies(&delta, &jail);
    assert!(res.is_err());
    kani::cover!(res.is_err() && hxc == Some(cx) && hyc == Some(cy));
    std::mem::forget((res, objs, delta, jail));
}

// vk: tier=thorough; timeout=600; unwindset=memcmp.0:33; flags=--no-assertion-reach-checks; bound=current set {x, y} with arbitrary contents; delta = publish(occupied URI) + update(x) + withdraw(y) with arbitrary stated hashes; models as above
#[kani::proof]
#[kani::unwind(3)]
#[kani::stub(rpki::ca::publication::Base64::to_hash, stub_to_hash)]
#[kani::stub(<CurrentObjectUri as core::convert::From<&uri::Rsync>>::from, model_key_from)]
#[kani::stub(<[u8]>::eq_ignore_ascii_case, crate::verif_fix::eq_ignore_ascii_case_16)]
fn x10a_three_publish_occupied() { verify_three::<Y>(); }

// vk: timeout=600; unwindset=memcmp.0:33; flags=--no-assertion-reach-checks; bound=current set {x, y} with arbitrary contents; delta = publish(foreign URI) + update(x) + withdraw(y) with arbitrary stated hashes; models as above
#[kani::proof]
#[kani::unwind(5)]
#[kani::stub(rpki::ca::publication::Base64::to_hash, stub_to_hash)]
#[kani::stub(<CurrentObjectUri as core::convert::From<&uri::Rsync>>::from, model_key_from)]
#[kani::stub(<[u8]>::eq_ignore_ascii_case, crate::verif_fix::eq_ignore_ascii_case_16)]
fn c10a_three_publish_foreign() { verify_three::<O>(); }

/// Applying a (verified) delta does exactly what it says: publish adds,
/// update replaces, withdraw removes, nothing else changes.
// vk: tier=thorough; timeout=600; unwindset=memcmp.0:33; flags=--no-assertion-reach-checks; bound=current set {x}; deltas publish(y)+update(x) and publish(y)+withdraw(x), arbitrary contents; models as above
#[kani::proof]
#[kani::unwind(3)]
#[kani::stub(rpki::ca::publication::Base64::to_hash, stub_to_hash)]
#[kani::stub(<CurrentObjectUri as core::convert::From<&uri::Rsync>>::from, model_key_from)]
#[kani::stub(<[u8]>::eq_ignore_ascii_case, crate::verif_fix::eq_ignore_ascii_case_16)]
fn x10a_apply_delta_exact() {
    let cx = any_content();
    let mut objs = current_a::<false>(cx, 0);
    let (ny, nx) = (any_content(), any_content());
    let d_upd = DeltaElements::new(
        vec![PublishElement { uri: uri_pick(Y), base64: base64_sym(ny) }],
        vec![UpdateElement { uri: uri_pick(X), hash: hash_of(cx), base64: base64_sym(nx) }],
        vec![],
    );
    let d_wdr = DeltaElements::new(vec![], vec![], vec![WithdrawElement { uri: uri_pick(X), hash: hash_of(nx) }]);
    objs.apply_delta(d_upd);
    assert!(objs.len() == 2 && holds(&objs, X, nx) && holds(&objs, Y, ny));
    objs.apply_delta(d_wdr);
    assert!(objs.len() == 1 && lacks(&objs, X) && holds(&objs, Y, ny));
    kani::cover!(nx != cx);
    std::mem::forget(objs);
}

//------------ C10(c) / C11(d): merging staged elements -------------------------
//
// A publisher may send further deltas before the staged ones have been cut
// into an RRDP delta.  `StagedElements::merge_new_elements` folds the new
// element into the staged one.  What the property needs from the result: the
// merged element, applied to the *published snapshot*, gives the same object
// as applying the staged and then the new element (the list reply shows the
// latest content), and an update/withdraw in it states the hash of what the
// snapshot holds - otherwise an RRDP client at the previous serial cannot
// apply the delta.  Snapshot: {x: cx}; y is not in the snapshot.

/// `S`: what is staged (1 publish y, 2 update x, 3 withdraw x); `D`: the new
/// element for the same URI (0 publish, 1 update, 2 withdraw).
fn merge_case<const S: u8, const D: u8>() {
    let (cx, c1, c2) = (any_content(), any_content(), any_content());
    let w = if S == 1 { Y } else { X };
    let mut staged = StagedElements::default();
    let first = match S {
        1 => DeltaElement::Publish(PublishElement { uri: uri_pick(w), base64: base64_sym(c1) }),
        2 => DeltaElement::Update(UpdateElement { uri: uri_pick(w), hash: hash_of(cx), base64: base64_sym(c1) }),
        _ => DeltaElement::Withdraw(WithdrawElement { uri: uri_pick(w), hash: hash_of(cx) }),
    };
    staged.0.insert(uri_pick(w), first);
    // the new element as the publisher computed it: against snapshot + staged
    let new = match D {
        0 => DeltaElements::new(vec![PublishElement { uri: uri_pick(w), base64: base64_sym(c2) }], vec![], vec![]),
        1 => DeltaElements::new(vec![], vec![UpdateElement { uri: uri_pick(w), hash: hash_of(c1), base64: base64_sym(c2) }], vec![]),
        _ => DeltaElements::new(vec![], vec![], vec![WithdrawElement { uri: uri_pick(w), hash: hash_of(c1) }]),
    };
    staged.merge_new_elements(new);
    let merged = staged.0.get(&uri_pick(w));
    let letter = |b: &Base64| crate::verif_fix::letter_of(b);
    match (S, D) {
        // publish y then update y: still a publish (y is not in the snapshot), newest content
        (1, 1) => match merged {
            Some(DeltaElement::Publish(p)) => assert!(letter(&p.base64) == b'A' + c2),
            _ => assert!(false),
        },
        // publish y then withdraw y: nothing ever becomes visible
        (1, 2) => assert!(merged.is_none() && staged.0.len() == 0),
        // update x then update x: one update, replacing what the SNAPSHOT holds, newest content
        (2, 1) => match merged {
            Some(DeltaElement::Update(u)) => assert!(u.hash == hash_of(cx) && letter(&u.base64) == b'A' + c2),
            _ => assert!(false),
        },
        // update x then withdraw x: a withdraw of what the SNAPSHOT holds
        (2, 2) => match merged {
            Some(DeltaElement::Withdraw(wd)) => assert!(wd.hash == hash_of(cx)),
            _ => assert!(false),
        },
        // withdraw x then publish x: an update of what the SNAPSHOT holds
        _ => match merged {
            Some(DeltaElement::Update(u)) => assert!(u.hash == hash_of(cx) && letter(&u.base64) == b'A' + c2),
            _ => assert!(false),
        },
    }
    kani::cover!(c1 != cx && c2 != c1);
    std::mem::forget(staged);
}

// vk: tier=thorough; timeout=600; unwindset=memcmp.0:33; flags=--no-assertion-reach-checks; bound=one staged element and one new element for the same URI (publish then update), contents arbitrary (16 letters); models: Base64::to_hash collision-free, <[u8]>::eq_ignore_ascii_case loop-free; model map
#[kani::proof]
#[kani::unwind(5)]
#[kani::stub(rpki::ca::publication::Base64::to_hash, stub_to_hash)]
#[kani::stub(<CurrentObjectUri as core::convert::From<&uri::Rsync>>::from, model_key_from)]
#[kani::stub(<[u8]>::eq_ignore_ascii_case, crate::verif_fix::eq_ignore_ascii_case_16)]
fn c10c_merge_publish_then_update() { merge_case::<1, 1>(); }

// vk: tier=thorough; timeout=600; unwindset=memcmp.0:33; flags=--no-assertion-reach-checks; bound=one staged element and one new element for the same URI (publish then withdraw), contents arbitrary (16 letters); models: Base64::to_hash collision-free, <[u8]>::eq_ignore_ascii_case loop-free; model map
#[kani::proof]
#[kani::unwind(5)]
#[kani::stub(rpki::ca::publication::Base64::to_hash, stub_to_hash)]
#[kani::stub(<CurrentObjectUri as core::convert::From<&uri::Rsync>>::from, model_key_from)]
#[kani::stub(<[u8]>::eq_ignore_ascii_case, crate::verif_fix::eq_ignore_ascii_case_16)]
fn c10c_merge_publish_then_withdraw() { merge_case::<1, 2>(); }

// vk: tier=thorough; timeout=600; unwindset=memcmp.0:33; flags=--no-assertion-reach-checks; bound=one staged element and one new element for the same URI (update then update), contents arbitrary (16 letters); models: Base64::to_hash collision-free, <[u8]>::eq_ignore_ascii_case loop-free; model map
#[kani::proof]
#[kani::unwind(5)]
#[kani::stub(rpki::ca::publication::Base64::to_hash, stub_to_hash)]
#[kani::stub(<CurrentObjectUri as core::convert::From<&uri::Rsync>>::from, model_key_from)]
#[kani::stub(<[u8]>::eq_ignore_ascii_case, crate::verif_fix::eq_ignore_ascii_case_16)]
fn c10c_merge_update_then_update() { merge_case::<2, 1>(); }

// vk: timeout=600; unwindset=memcmp.0:33; flags=--no-assertion-reach-checks; bound=one staged element and one new element for the same URI (update then withdraw), contents arbitrary (16 letters); models: Base64::to_hash collision-free, <[u8]>::eq_ignore_ascii_case loop-free; model map
#[kani::proof]
#[kani::unwind(5)]
#[kani::stub(rpki::ca::publication::Base64::to_hash, stub_to_hash)]
#[kani::stub(<CurrentObjectUri as core::convert::From<&uri::Rsync>>::from, model_key_from)]
#[kani::stub(<[u8]>::eq_ignore_ascii_case, crate::verif_fix::eq_ignore_ascii_case_16)]
fn c10c_merge_update_then_withdraw() { merge_case::<2, 2>(); }

// vk: timeout=600; unwindset=memcmp.0:33; flags=--no-assertion-reach-checks; bound=one staged element and one new element for the same URI (withdraw then publish), contents arbitrary (16 letters); models: Base64::to_hash collision-free, <[u8]>::eq_ignore_ascii_case loop-free; model map
#[kani::proof]
#[kani::unwind(5)]
#[kani::stub(rpki::ca::publication::Base64::to_hash, stub_to_hash)]
#[kani::stub(<CurrentObjectUri as core::convert::From<&uri::Rsync>>::from, model_key_from)]
#[kani::stub(<[u8]>::eq_ignore_ascii_case, crate::verif_fix::eq_ignore_ascii_case_16)]
fn c10c_merge_withdraw_then_publish() { merge_case::<3, 0>(); }

//------------ C11(d): the same merge kernels seen from the RRDP client ---------
//
// An RRDP delta is cut from the merged staged elements; a client at the
// previous serial can apply it only if every update/withdraw in it states the
// hash of what the previous snapshot holds.  Same harness bodies as C10(c).

// vk: tier=thorough; timeout=600; unwindset=memcmp.0:33; flags=--no-assertion-reach-checks; bound=one staged element and one new element for the same URI (update then update), contents arbitrary (16 letters); models: Base64::to_hash collision-free, <[u8]>::eq_ignore_ascii_case loop-free; model map
#[kani::proof]
#[kani::unwind(5)]
#[kani::stub(rpki::ca::publication::Base64::to_hash, stub_to_hash)]
#[kani::stub(<CurrentObjectUri as core::convert::From<&uri::Rsync>>::from, model_key_from)]
#[kani::stub(<[u8]>::eq_ignore_ascii_case, crate::verif_fix::eq_ignore_ascii_case_16)]
fn c11d_delta_hash_matches_snapshot_update_then_update() { merge_case::<2, 1>(); }

// vk: timeout=600; unwindset=memcmp.0:33; flags=--no-assertion-reach-checks; bound=one staged element and one new element for the same URI (withdraw then publish), contents arbitrary (16 letters); models: Base64::to_hash collision-free, <[u8]>::eq_ignore_ascii_case loop-free; model map
#[kani::proof]
#[kani::unwind(5)]
#[kani::stub(rpki::ca::publication::Base64::to_hash, stub_to_hash)]
#[kani::stub(<CurrentObjectUri as core::convert::From<&uri::Rsync>>::from, model_key_from)]
#[kani::stub(<[u8]>::eq_ignore_ascii_case, crate::verif_fix::eq_ignore_ascii_case_16)]
fn c11d_delta_hash_matches_snapshot_withdraw_then_publish() { merge_case::<3, 0>(); }

//------------ C11(e): size-based truncation keeps a prefix --------------------

fn delta_with(serial: u64, big: bool) -> DeltaData {
    // size_approx = (text length >> 2) * 3: "AAAA" counts 3, 16 letters count 12
    let b = if big { crate::verif_fix::base64_raw("AAAAAAAAAAAAAAAA") } else { crate::verif_fix::base64_raw("AAAA") };
    DeltaData::new(serial, t0(), RrdpFileRandom(String::new()),
        DeltaElements::new(vec![PublishElement { uri: uri_pick(X), base64: b }], vec![], vec![]))
}

/// `deltas_truncate_size` keeps the longest newest-first prefix whose summed
/// size does not exceed the snapshot size - never a delta behind one that
/// was dropped, so the retained serials stay a contiguous run ending at the
/// current serial.
// vk: tier=thorough; timeout=1500; unwindset=memcmp.0:33; flags=--no-assertion-reach-checks; bound=3 deltas (serials 5,4,3), each small (3) or big (12) chosen by the solver, snapshot of one object of size 12; model map
#[kani::proof]
#[kani::unwind(4)]
fn x11e_size_truncation_keeps_prefix() {
    let big: [bool; 3] = kani::any();
    let mut deltas = VecDeque::new();
    deltas.push_back(delta_with(5, big[0]));
    deltas.push_back(delta_with(4, big[1]));
    deltas.push_back(delta_with(3, big[2]));
    let mut objs = CurrentObjects::default();
    objs.0.insert(CurrentObjectUri(Arc::from("k")), crate::verif_fix::base64_raw("AAAAAAAAAAAAAAAA"));
    let mut pubs: HashMap<PublisherHandle, CurrentObjects> = HashMap::new();
    pubs.insert(PublisherHandle::new("a".into()), objs);
    let mut slot = std::mem::MaybeUninit::<RrdpServer>::uninit();
    let p = slot.as_mut_ptr();
    unsafe {
        std::ptr::addr_of_mut!((*p).deltas).write(deltas);
        std::ptr::addr_of_mut!((*p).snapshot).write(SnapshotData::new(RrdpFileRandom(String::new()), pubs));
    }
    let server: &mut RrdpServer = unsafe { &mut *p };
    server.deltas_truncate_size();
    let size = |b: bool| if b { 12usize } else { 3usize };
    let mut expect = 0usize;
    let mut total = 0usize;
    let mut i = 0;
    while i < 3 {
        total += size(big[i]);
        if total > 12 { break; }
        expect += 1;
        i += 1;
    }
    assert!(server.deltas.len() == expect);
    let mut j = 0;
    while j < server.deltas.len() {
        assert!(server.deltas[j].serial() == 5 - j as u64);
        j += 1;
    }
    kani::cover!(expect == 1 && !big[2]);   // a small delta behind a dropped big one
    kani::cover!(expect == 3);
    std::mem::forget(slot);
}

/// Native validation of the key model (not a Kani harness): model and real
/// `CurrentObjectUri::from` agree on the fixture URIs and on parsed URIs.
#[cfg(test)]
#[test]
fn vk_key_model_matches_real() {
    for i in 0..4u8 {
        let u = uri_pick(i);
        assert_eq!(model_key_from(&u), CurrentObjectUri::from(&u));
        let parsed = uri::Rsync::from_str(u.as_str()).unwrap();
        assert_eq!(parsed, u);
        assert_eq!(model_key_from(&parsed), CurrentObjectUri::from(&parsed));
    }
    let j = jail_a();
    assert_eq!(model_key_from(&j), CurrentObjectUri::from(&j));
    for s in ["rsync://Example.ORG/repo/ca/x.cer", "rsync://localhost:3000/m/", "rsync://a.b/Mod/Path/File.ROA"] {
        let u = uri::Rsync::from_str(s).unwrap();
        assert_eq!(model_key_from(&u), CurrentObjectUri::from(&u));
    }
}

#[cfg(test)]
#[path = "/verif/.cache/playback/server_pubd_rrdp.rs"]
mod playback;
