// Kani harnesses compiled as `mod verif_kani` inside /repo/src/server/pubd/rrdp.rs (cfg(kani) only).
//
// Kernel: RrdpServer::is_request_path_valid (filter in front of the RRDP file server).
use super::*;
use crate::api::roa::verif_kani::any_ascii;

fn check_short<const N: usize>() {
    let (buf, len) = any_ascii::<N>();
    let Ok(s) = std::str::from_utf8(&buf[..len]) else { return };
    let r = RrdpServer::is_request_path_valid(s);
    assert!(r.is_none());
    kani::cover!(len == N && buf[0] == b'/');
    kani::cover!(len == N && buf[0] == b'.' && buf[1] == b'.');
}

/// Arbitrary short request paths: never a panic, never accepted (every
/// acceptable path is at least 13 bytes long).
// vk: timeout=900; bound=paths of 0..=3 ASCII bytes
#[kani::proof]
#[kani::unwind(6)]
fn c16e_request_path_short_3() {
    check_short::<3>();
}

// vk: tier=thorough; timeout=2400; bound=paths of 0..=4 ASCII bytes
#[kani::proof]
#[kani::unwind(7)]
fn c16e_request_path_short_4() {
    check_short::<4>();
}

// vk: tier=thorough; timeout=2400; bound=paths of 0..=5 ASCII bytes
#[kani::proof]
#[kani::unwind(8)]
fn c16e_request_path_short_5() {
    check_short::<5>();
}

//------------ C11: delta retention and serial numbering (in-memory step) -------
//
// Fixture: an `RrdpServer` needs parsed URIs and paths that the retention code
// never reads. The harnesses write only the fields the functions under test
// read (`deltas`; plus `serial`, `snapshot`, `staged_elements`, `last_update`
// for apply_rrdp_updated) into a `MaybeUninit<RrdpServer>`; CBMC treats the
// rest as arbitrary. All maps are empty (seed stub), all deltas carry no
// elements, so the size-based truncation keeps everything and the age/number
// rules are what is decided.

use crate::config::verif_kani::{const_finish, fixed_random_state, noop_write, stub_now, sym_now, t0};

fn delta_at(serial: u64, age_s: u32, now: Time) -> DeltaData {
    DeltaData::new(serial, now - Duration::seconds(age_s as i64), RrdpFileRandom(String::new()), DeltaElements::default())
}

fn any_rrdp_config() -> RrdpUpdatesConfig {
    let min_nr: usize = kani::any();
    let max_nr: usize = kani::any();
    // documented configuration: at least one delta may be kept, min <= max
    kani::assume(max_nr >= 1 && max_nr <= 8 && min_nr <= max_nr);
    RrdpUpdatesConfig {
        rrdp_delta_files_min_nr: min_nr,
        rrdp_delta_files_min_seconds: kani::any::<u16>() as u32,
        rrdp_delta_files_max_nr: max_nr,
        rrdp_delta_files_max_seconds: kani::any::<u16>() as u32,
        rrdp_delta_interval_min_seconds: 0,
        rrdp_files_archive: false,
    }
}

/// Age/number retention over three existing deltas (newest first, ages
/// non-decreasing): the number kept plus the delta about to be added never
/// exceeds the configured maximum, is never below the configured minimum
/// (when that many exist), every delta younger than the minimum age is kept,
/// nothing older than the maximum age is kept beyond the minimum number, and
/// what is kept is a prefix of the list (so the retained serials stay a
/// contiguous run ending at the newest).
// vk: bound=3 existing deltas with arbitrary non-decreasing ages < 2^17 s, min/max number 0..=8 with 1 <= max and min <= max, min/max age 0..=65535 s, now in a 2^20 s window
#[kani::proof]
#[kani::unwind(6)]
#[kani::stub(rpki::repository::x509::Time::now, stub_now)]
fn c11a_retention_by_age_and_number() {
    let now = sym_now();
    let ages: [u32; 3] = kani::any();
    kani::assume(ages[0] < (1 << 17) && ages[1] < (1 << 17) && ages[2] < (1 << 17));
    kani::assume(ages[0] <= ages[1] && ages[1] <= ages[2]);
    let mut deltas = VecDeque::new();
    deltas.push_back(delta_at(9, ages[0], now));
    deltas.push_back(delta_at(8, ages[1], now));
    deltas.push_back(delta_at(7, ages[2], now));
    let mut slot = std::mem::MaybeUninit::<RrdpServer>::uninit();
    let p = slot.as_mut_ptr();
    unsafe { std::ptr::addr_of_mut!((*p).deltas).write(deltas); }
    let server: &RrdpServer = unsafe { &*p };
    let cfg = any_rrdp_config();
    let keep = server.find_deltas_truncate_age(cfg);
    assert!(keep <= 3);
    // never more than the maximum, counting the delta about to be added
    assert!(keep + 1 <= cfg.rrdp_delta_files_max_nr || keep <= cfg.rrdp_delta_files_min_nr
        || ages[keep - 1] < cfg.rrdp_delta_files_min_seconds);
    // the minimum number is honoured when that many exist
    let min_wanted = if cfg.rrdp_delta_files_min_nr < 3 { cfg.rrdp_delta_files_min_nr } else { 3 };
    assert!(keep >= min_wanted);
    // everything younger than the minimum age is kept
    let mut i = 0;
    while i < 3 {
        if ages[i] < cfg.rrdp_delta_files_min_seconds { assert!(keep > i); }
        i += 1;
    }
    // nothing beyond the minimum rules is older than the maximum age
    if keep > 0 && keep > cfg.rrdp_delta_files_min_nr
        && ages[keep - 1] >= cfg.rrdp_delta_files_min_seconds {
        assert!(ages[keep - 1] <= cfg.rrdp_delta_files_max_seconds);
    }
    kani::cover!(keep == 0);
    kani::cover!(keep == 1);
    kani::cover!(keep == 3);
    kani::cover!(keep == 2 && cfg.rrdp_delta_files_max_nr == 3);
    kani::cover!(keep == 1 && cfg.rrdp_delta_files_max_nr > 3 && cfg.rrdp_delta_files_min_nr == 0);
    std::mem::forget(slot);
}

/// Same rules on four existing deltas.
// vk: tier=thorough; timeout=2400; bound=4 existing deltas with arbitrary non-decreasing ages < 2^17 s, min/max number 0..=8 with 1 <= max and min <= max, min/max age 0..=65535 s
#[kani::proof]
#[kani::unwind(7)]
#[kani::stub(rpki::repository::x509::Time::now, stub_now)]
fn c11a_retention_by_age_and_number_4() {
    let now = sym_now();
    let ages: [u32; 4] = kani::any();
    let mut k = 0;
    while k < 4 {
        kani::assume(ages[k] < (1 << 17));
        if k > 0 { kani::assume(ages[k - 1] <= ages[k]); }
        k += 1;
    }
    let mut deltas = VecDeque::new();
    let mut k = 0;
    while k < 4 { deltas.push_back(delta_at(9 - k as u64, ages[k], now)); k += 1; }
    let mut slot = std::mem::MaybeUninit::<RrdpServer>::uninit();
    let p = slot.as_mut_ptr();
    unsafe { std::ptr::addr_of_mut!((*p).deltas).write(deltas); }
    let server: &RrdpServer = unsafe { &*p };
    let cfg = any_rrdp_config();
    let keep = server.find_deltas_truncate_age(cfg);
    assert!(keep <= 4);
    assert!(keep + 1 <= cfg.rrdp_delta_files_max_nr || keep <= cfg.rrdp_delta_files_min_nr
        || ages[keep - 1] < cfg.rrdp_delta_files_min_seconds);
    let min_wanted = if cfg.rrdp_delta_files_min_nr < 4 { cfg.rrdp_delta_files_min_nr } else { 4 };
    assert!(keep >= min_wanted);
    let mut i = 0;
    while i < 4 {
        if ages[i] < cfg.rrdp_delta_files_min_seconds { assert!(keep > i); }
        i += 1;
    }
    if keep > 0 && keep > cfg.rrdp_delta_files_min_nr
        && ages[keep - 1] >= cfg.rrdp_delta_files_min_seconds {
        assert!(ages[keep - 1] <= cfg.rrdp_delta_files_max_seconds);
    }
    kani::cover!(keep == 0);
    kani::cover!(keep == 4);
    kani::cover!(keep == 3 && cfg.rrdp_delta_files_max_nr == 4);
    std::mem::forget(slot);
}

/// The two age tests the retention rules are built from: a delta is
/// "younger than s" iff its age is below s, "older than s" iff above; never
/// both; at exactly s it is neither (so it is kept by the remainder rule).
// vk: bound=age 0..2^17 s, threshold any u32, now in a 2^20 s window
#[kani::proof]
#[kani::stub(rpki::repository::x509::Time::now, stub_now)]
fn c11c_delta_age_tests() {
    let now = sym_now();
    let age: u32 = kani::any();
    kani::assume(age < (1 << 17));
    let secs: u32 = kani::any();
    let d = delta_at(5, age, now);
    let younger = d.younger_than_seconds(secs.into());
    let older = d.older_than_seconds(secs.into());
    assert!(younger == (age < secs));
    assert!(older == (age > secs));
    assert!(!(younger && older));
    assert!(d.serial() == 5);
    kani::cover!(younger);
    kani::cover!(older);
    kani::cover!(!younger && !older);
    std::mem::forget(d);
}

/// The property's flat wording - "the retained deltas never exceed the
/// configured maximum number" - for configurations with min < max.
/// KNOWN FINDING K1 (known_findings.txt): by documented design every delta
/// younger than `rrdp_delta_files_min_seconds` is kept even beyond
/// `rrdp_delta_files_max_nr`, so this assertion fails on the unchanged tree
/// for e.g. max_nr = 1 and two deltas from the last few seconds. Any other
/// way of exceeding the maximum is caught by c11a (which encodes the
/// documented rules and passes).
// vk: bound=3 existing deltas with arbitrary non-decreasing ages < 2^17 s, 0 <= min < max <= 8, min/max age 0..=65535 s
#[kani::proof]
#[kani::unwind(6)]
#[kani::stub(rpki::repository::x509::Time::now, stub_now)]
fn c11k_retained_never_exceeds_maximum() {
    let now = sym_now();
    let ages: [u32; 3] = kani::any();
    kani::assume(ages[0] < (1 << 17) && ages[1] < (1 << 17) && ages[2] < (1 << 17));
    kani::assume(ages[0] <= ages[1] && ages[1] <= ages[2]);
    let mut deltas = VecDeque::new();
    deltas.push_back(delta_at(9, ages[0], now));
    deltas.push_back(delta_at(8, ages[1], now));
    deltas.push_back(delta_at(7, ages[2], now));
    let mut slot = std::mem::MaybeUninit::<RrdpServer>::uninit();
    let p = slot.as_mut_ptr();
    unsafe { std::ptr::addr_of_mut!((*p).deltas).write(deltas); }
    let server: &RrdpServer = unsafe { &*p };
    let cfg = any_rrdp_config();
    kani::assume(cfg.rrdp_delta_files_min_nr < cfg.rrdp_delta_files_max_nr);
    let keep = server.find_deltas_truncate_age(cfg);
    kani::cover!(keep == 2);
    kani::cover!(keep == 0);
    // retained = kept older deltas + the one being added
    assert!(keep + 1 <= cfg.rrdp_delta_files_max_nr);
    std::mem::forget(slot);
}

/// One in-memory RRDP update: the serial grows by exactly one, the new delta
/// carries the new serial and sits in front of the retained older ones, which
/// are a prefix of the previous list; so if the retained deltas were a
/// contiguous run ending at the old serial they are one ending at the new.
// vk: bound=2 existing deltas (no elements), no staged publishers, truncate position 0..=3, serial any u64 below u64::MAX
#[kani::proof]
#[kani::unwind(8)]
#[kani::stub(rpki::repository::x509::Time::now, stub_now)]
#[kani::stub(std::hash::RandomState::new, fixed_random_state)]
#[kani::stub(<std::hash::DefaultHasher as std::hash::Hasher>::finish, const_finish)]
#[kani::stub(<std::hash::DefaultHasher as std::hash::Hasher>::write, noop_write)]
fn x11b_update_step_serial_and_contiguity() {
    let now = sym_now();
    let serial: u64 = kani::any();
    kani::assume(serial >= 2 && serial < u64::MAX);
    let mut deltas = VecDeque::new();
    deltas.push_back(delta_at(serial, 10, now));
    deltas.push_back(delta_at(serial - 1, 20, now));
    let mut slot = std::mem::MaybeUninit::<RrdpServer>::uninit();
    let p = slot.as_mut_ptr();
    unsafe {
        std::ptr::addr_of_mut!((*p).deltas).write(deltas);
        std::ptr::addr_of_mut!((*p).serial).write(serial);
        std::ptr::addr_of_mut!((*p).last_update).write(t0());
        std::ptr::addr_of_mut!((*p).staged_elements).write(HashMap::new());
        std::ptr::addr_of_mut!((*p).snapshot).write(
            SnapshotData::new(RrdpFileRandom(String::new()), HashMap::new()));
    }
    let server: &mut RrdpServer = unsafe { &mut *p };
    let truncate: usize = kani::any();
    kani::assume(truncate <= 3);
    server.apply_rrdp_updated(RrdpUpdated { time: now, random: RrdpFileRandom(String::new()), deltas_truncate: truncate });
    assert!(server.serial == serial + 1);
    assert!(server.last_update == now);
    let kept_old = if truncate < 2 { truncate } else { 2 };
    assert!(server.deltas.len() == kept_old + 1);
    // newest first, contiguous, ending at the current serial
    let mut i = 0;
    while i < server.deltas.len() {
        assert!(server.deltas[i].serial() == serial + 1 - i as u64);
        i += 1;
    }
    kani::cover!(truncate == 0);
    kani::cover!(truncate == 1);
    kani::cover!(truncate == 3);
    std::mem::forget(slot);
}


//------------ C10: delta verification and application ------------------------
//
// URIs and contents come from `crate::verif_fix` (laid-out fixtures, no
// parser); the content hash is the collision-free model `stub_to_hash`.
// Publisher "a" owns rsync://h/m/a/, publisher "b" owns rsync://h/m/b/.

use crate::verif_fix::{base64_of, hash_of, hash_other, rsync_hm, stub_to_hash};

pub(crate) fn jail_a() -> uri::Rsync { rsync_hm("rsync://h/m/a/") }
pub(crate) fn uri_pick(i: u8) -> uri::Rsync {
    match i {
        0 => rsync_hm("rsync://h/m/a/x"),
        1 => rsync_hm("rsync://h/m/a/y"),
        _ => rsync_hm("rsync://h/m/b/x"),
    }
}

/// The laid-out fixtures are well-formed values of the real types: the real
/// accessors return what the parser would have produced.
// vk: timeout=600; unwindset=memcmp.0:20; bound=concrete fixture values
#[kani::proof]
#[kani::unwind(20)]
fn c10z_fixtures_are_wellformed() {
    let jail = jail_a();
    let x = uri_pick(0);
    let o = uri_pick(2);
    assert!(jail.as_str() == "rsync://h/m/a/");
    assert!(x.as_str() == "rsync://h/m/a/x");
    assert!(jail.module_name() == "m" && jail.path() == "a/");
    assert!(x.path() == "a/x" && o.path() == "b/x");
    assert!(jail.is_parent_of(&x));
    assert!(!jail.is_parent_of(&o));
    assert!(!jail.is_parent_of(&jail));
    assert!(base64_of(3).as_str() == "D");
    kani::cover!(jail.is_parent_of(&x));
    std::mem::forget((jail, x, o));
}


/// Current objects of publisher "a": each of x, y present or not, with
/// arbitrary (fixture) content.
fn any_current() -> (CurrentObjects, [Option<u8>; 2]) {
    let mut objs = CurrentObjects::default();
    let mut have = [None, None];
    let mut i = 0u8;
    while i < 2 {
        if kani::any() {
            let c: u8 = kani::any();
            kani::assume(c < 16);
            objs.0.insert(CurrentObjectUri::from(&uri_pick(i)), base64_of(c));
            have[i as usize] = Some(c);
        }
        i += 1;
    }
    (objs, have)
}

fn any_hash() -> (Hash, Option<u8>) {
    if kani::any() {
        let c: u8 = kani::any();
        kani::assume(c < 16);
        (hash_of(c), Some(c))
    } else {
        (hash_other(), None)
    }
}

/// One-element delta against 0..2 current objects: accepted exactly when the
/// URI lies inside the publisher's jail AND (publish: the URI is new;
/// update/withdraw: the URI currently holds content with the stated hash).
// vk: timeout=900; unwindset=memcmp.0:20; bound=0..2 current objects (x, y) with 16 possible contents, one delta element of any kind for x, y or a URI of another publisher, stated hash = hash of any content or a foreign hash; Base64::to_hash modelled collision-free
#[kani::proof]
#[kani::unwind(5)]
#[kani::stub(rpki::ca::publication::Base64::to_hash, stub_to_hash)]
fn c10a_verify_one_element() {
    let (objs, have) = any_current();
    let kind: u8 = kani::any();
    let which: u8 = kani::any();
    kani::assume(kind < 3 && which < 3);
    let uri = uri_pick(which);
    let inside = which < 2;
    let (hash, hc) = any_hash();
    let content: u8 = kani::any();
    kani::assume(content < 16);
    let delta = match kind {
        0 => DeltaElements::new(vec![PublishElement { uri, base64: base64_of(content) }], vec![], vec![]),
        1 => DeltaElements::new(vec![], vec![UpdateElement { uri, hash, base64: base64_of(content) }], vec![]),
        _ => DeltaElements::new(vec![], vec![], vec![WithdrawElement { uri, hash }]),
    };
    let res = objs.verify_delta_applies(&delta, &jail_a());
    let present = if inside { have[which as usize] } else { None };
    let expect_ok = inside && match kind {
        0 => present.is_none(),
        _ => present.is_some() && hc == present,
    };
    assert!(res.is_ok() == expect_ok);
    kani::cover!(res.is_ok() && kind == 0);
    kani::cover!(res.is_ok() && kind == 1);
    kani::cover!(res.is_ok() && kind == 2);
    kani::cover!(res.is_err() && !inside);
    kani::cover!(res.is_err() && inside && kind == 0);
    kani::cover!(res.is_err() && inside && kind == 2 && present.is_some());
    std::mem::forget((res, objs, delta));
}

#[cfg(test)]
#[path = "/verif/.cache/playback/server_pubd_rrdp.rs"]
mod playback;
