// Kani harnesses compiled as `mod verif_kani` inside /repo/src/server/pubd/rrdp.rs (cfg(kani) only).
