// Kani harnesses compiled as `mod verif_kani` inside /repo/src/server/pubd/rrdp.rs (cfg(kani) only).
//
// Kernel: RrdpServer::is_request_path_valid (filter in front of the RRDP file server).
use super::*;
use crate::api::roa::verif_kani::any_ascii;

fn check_short<const N: usize>() {
    let (buf, len) = any_ascii::<N>();
    let Ok(s) = std::str::from_utf8(&buf[..len]) else { return };
    let r = RrdpServer::is_request_path_valid(s);
    assert!(r.is_none());
    kani::cover!(len == N && buf[0] == b'/');
    kani::cover!(len == N && buf[0] == b'.' && buf[1] == b'.');
}

/// Arbitrary short request paths: never a panic, never accepted (every
/// acceptable path is at least 13 bytes long).
// vk: timeout=900; bound=paths of 0..=3 ASCII bytes
#[kani::proof]
#[kani::unwind(6)]
fn c16e_request_path_short_3() {
    check_short::<3>();
}

// vk: tier=thorough; timeout=2400; bound=paths of 0..=4 ASCII bytes
#[kani::proof]
#[kani::unwind(7)]
fn c16e_request_path_short_4() {
    check_short::<4>();
}

// vk: tier=thorough; timeout=2400; bound=paths of 0..=5 ASCII bytes
#[kani::proof]
#[kani::unwind(8)]
fn c16e_request_path_short_5() {
    check_short::<5>();
}

#[cfg(test)]
#[path = "/verif/.cache/playback/server_pubd_rrdp.rs"]
mod playback;
