// Kani harnesses compiled as `mod verif_kani` inside /repo/src/commons/crypto/signing/misc.rs (cfg(kani) only).
//
// Kernels: SignSupport::{sign_validity_weeks, sign_validity_days}.
use super::*;
use crate::config::verif_kani::{stub_now, sym_now};
use chrono::Duration;

/// Validity for a lifetime in weeks: not_before = now - 5 min, not_after =
/// now + weeks, so the window always contains the present.
// vk: bound=weeks 0..=255, now in a 2^20 s window
#[kani::proof]
#[kani::stub(rpki::repository::x509::Time::now, stub_now)]
fn c14b_sign_validity_weeks_u8() {
    let now = sym_now();
    let weeks: u8 = kani::any();
    let v = SignSupport::sign_validity_weeks(weeks as i64);
    assert!(v.not_before() == now - Duration::minutes(5));
    assert!(v.not_after() == now + Duration::weeks(weeks as i64));
    assert!(v.not_before() <= now && now <= v.not_after());
    kani::cover!(weeks == 0);
    kani::cover!(weeks == 255);
}

// vk: tier=thorough; timeout=1800; bound=weeks 0..=65535, now in a 2^20 s window
#[kani::proof]
#[kani::stub(rpki::repository::x509::Time::now, stub_now)]
fn c14b_sign_validity_weeks_u16() {
    let now = sym_now();
    let weeks: u16 = kani::any();
    let v = SignSupport::sign_validity_weeks(weeks as i64);
    assert!(v.not_before() == now - Duration::minutes(5));
    assert!(v.not_after() == now + Duration::weeks(weeks as i64));
    assert!(v.not_before() <= now && now <= v.not_after());
    kani::cover!(weeks == 0);
    kani::cover!(weeks == 65535);
}

fn check_days(days: u16) {
    let now = sym_now();
    let v = SignSupport::sign_validity_days(days as i64);
    assert!(v.not_before() == now - Duration::minutes(5));
    assert!(v.not_after() == now + Duration::days(days as i64));
    assert!(v.not_before() <= now && now <= v.not_after());
    kani::cover!(days == 0);
}

// vk: bound=days 0..=255, now in a 2^20 s window
#[kani::proof]
#[kani::stub(rpki::repository::x509::Time::now, stub_now)]
fn c14b_sign_validity_days_u8() {
    let d: u8 = kani::any();
    check_days(d as u16);
    kani::cover!(d == 255);
}

// vk: tier=thorough; timeout=1800; bound=days 0..=65535, now in a 2^20 s window
#[kani::proof]
#[kani::stub(rpki::repository::x509::Time::now, stub_now)]
fn c14b_sign_validity_days_u16() {
    let d: u16 = kani::any();
    check_days(d);
    kani::cover!(d == 65535);
}

#[cfg(test)]
#[path = "/verif/.cache/playback/commons_crypto_signing_misc.rs"]
mod playback;
