//! Fixtures shared by Kani harnesses: values of `rpki`/`bcder` types that have
//! no constructor other than a parser or encoder.
//!
//! Parsing one ~15-byte URI costs CBMC a 15-20-iteration loop over `Bytes`
//! (minutes once several are needed, DESIGN §1), and nothing the harnesses
//! decide depends on the parser.  The values are therefore laid out directly:
//! a mirror struct with the same fields in the same order is transmuted into
//! the real type (`transmute` checks the sizes at compile time).  rustc lays
//! out two structs with identical field lists identically, but does not
//! promise to; every fixture is therefore *validated by the real accessors*
//! in the harness `c10z_fixtures_are_wellformed` (as_str, module, path,
//! is_parent_of, ...), which runs with every check that uses them - a
//! mismatch would fail there, under the same compiler that lays out the real
//! type.

#![allow(dead_code)]

use bytes::Bytes;
use rpki::ca::publication::Base64;
use rpki::rrdp::Hash;
use rpki::uri;
use std::sync::Arc;

//------------ uri::Rsync ----------------------------------------------------

struct RsyncMirror {
    bytes: Bytes,
    module_start: usize,
    path_start: usize,
}

/// `rsync://<authority>/<module>/<path>` from a static string. The caller
/// gives the two indices the parser would compute.
pub(crate) fn rsync_raw(s: &'static str, module_start: usize, path_start: usize) -> uri::Rsync {
    let m = RsyncMirror { bytes: Bytes::from_static(s.as_bytes()), module_start, path_start };
    unsafe { std::mem::transmute::<RsyncMirror, uri::Rsync>(m) }
}

/// URIs under the one-letter authority "h": `rsync://h/<m>/<path>` where `m`
/// is a one-letter module name.
pub(crate) fn rsync_hm(s: &'static str) -> uri::Rsync {
    // "rsync://h/" is 10 bytes, the module letter and its slash 2 more
    rsync_raw(s, 10, 12)
}

//------------ Base64 / Hash -------------------------------------------------

struct Base64Mirror(Arc<str>);

/// A `Base64` whose encoded text is the given string (no encoding step).
pub(crate) fn base64_raw(s: &str) -> Base64 {
    let a: Arc<str> = Arc::from(s);
    // Pin the reference count at 2 (leak one clone): when the code under test
    // drops or replaces the value, `Arc::drop` only decrements and never takes
    // the deallocation path.  CBMC's model of `free` constrains every later
    // pointer access; harnesses whose code under test freed a fixture ran out
    // of memory within minutes, the same harness with pinned fixtures takes
    // seconds.  Leaking changes no observable behaviour of the code under test.
    std::mem::forget(a.clone());
    let m = Base64Mirror(a);
    unsafe { std::mem::transmute::<Base64Mirror, Base64>(m) }
}

/// Fixture contents: the four-letter text `AAA?` whose last letter is
/// `b'A' + (v % 16)` - valid base64 (three bytes), so that a native replay
/// can run the real `to_hash` on it.
pub(crate) fn base64_of(v: u8) -> Base64 {
    base64_sym(v)
}

/// Content whose last letter is a *symbolic* byte: the allocation is
/// concrete, only the letter depends on `v` (a table lookup with a symbolic
/// index makes CBMC reason about a pointer with 16 possible targets).
pub(crate) fn base64_sym(v: u8) -> Base64 {
    let b = [b'A', b'A', b'A', b'A' + (v % 16)];
    base64_raw(unsafe { std::str::from_utf8_unchecked(&b) })
}

/// The letter that distinguishes a fixture content.
pub(crate) fn letter_of(b: &Base64) -> u8 {
    let s = b.as_str().as_bytes();
    if s.len() < 4 { 0 } else { s[3] }
}

/// Replacement body for `rpki::ca::publication::Base64::to_hash` (SHA-256 over
/// the decoded content, through `ring`: assembly/FFI that CBMC cannot run).
/// The model is a function of the content, as a hash is: equal text gives an
/// equal hash, and on the fixture domain (texts `AAA?`) different text gives a
/// different hash - i.e. a collision-free hash on that domain.
pub(crate) fn stub_to_hash(b: &Base64) -> Hash {
    Hash::from([letter_of(b); 32])
}

/// The hash of fixture content `v`: under the engine the model above; in a
/// native replay (`cfg(test)`: stubs are not applied there) the real SHA-256,
/// so that the replayed code sees hashes that match its own `to_hash`.
#[cfg(not(test))]
pub(crate) fn hash_of(v: u8) -> Hash {
    Hash::from([b'A' + (v % 16); 32])
}
#[cfg(test)]
pub(crate) fn hash_of(v: u8) -> Hash {
    base64_sym(v).to_hash()
}

/// An arbitrary hash that is NOT the hash of any fixture content.
pub(crate) fn hash_other() -> Hash {
    Hash::from([0u8; 32])
}

//------------ <[u8]>::eq_ignore_ascii_case ----------------------------------

/// Replacement body for `<[u8]>::eq_ignore_ascii_case`, written without a
/// loop for slices of at most 16 bytes (the module part of every fixture URI
/// is 12 bytes).  std's version is a loop over the slice; CBMC needs a
/// per-loop bound for it whose name contains compiler-generated hashes.  A
/// longer slice fails the assertion (reported, never silently cut).
pub(crate) fn eq_ignore_ascii_case_16(a: &[u8], b: &[u8]) -> bool {
    if a.len() != b.len() {
        return false;
    }
    assert!(a.len() <= 16, "fixture bound: eq_ignore_ascii_case model handles at most 16 bytes");
    macro_rules! at {
        ($($i:literal)*) => { $( if a.len() > $i && !a[$i].eq_ignore_ascii_case(&b[$i]) { return false; } )* };
    }
    at!(0 1 2 3 4 5 6 7 8 9 10 11 12 13 14 15);
    true
}
